(* C06 — preservation of the structural invariant by every operation. *)
From Coq Require Import List Arith ZArith Bool Lia.
From Verif Require Import C06.Model C06.Proof.
Import ListNotations.

Lemma NoDup_app_r {A} (l1 l2 : list A) : NoDup (l1 ++ l2) -> NoDup l2.
Proof. induction l1; simpl; auto. intros H. inversion H; auto. Qed.
Lemma NoDup_app_l {A} (l1 l2 : list A) : NoDup (l1 ++ l2) -> NoDup l1.
Proof.
  induction l1; simpl; intros H; [constructor|]. inversion H; subst. constructor; auto.
  intros I. apply H2. apply in_or_app. left; auto.
Qed.
Lemma NoDup_app_disj {A} (l1 l2 : list A) x : NoDup (l1 ++ l2) -> In x l1 -> In x l2 -> False.
Proof.
  induction l1; simpl; intros H I1 I2; [contradiction|]. inversion H; subst.
  destruct I1 as [->|I1]; auto. apply H2. apply in_or_app. right; auto.
Qed.
Lemma NoDup_skipn_app {A} (l1 l2 : list A) k : NoDup (l1 ++ l2) -> NoDup (skipn k l1 ++ l2).
Proof.
  intros H. rewrite <- (firstn_skipn k l1) in H. rewrite <- app_assoc in H. apply NoDup_app_r in H. exact H.
Qed.
Lemma in_skipn {A} (l : list A) k x : In x (skipn k l) -> In x l.
Proof. intros H. rewrite <- (firstn_skipn k l). apply in_or_app. right; auto. Qed.

(* ---------- OLeave ---------- *)
Lemma inv1_leave st call rest k : Inv1 st -> stack st = call :: rest -> k < length call ->
  Inv1 (set_stack st (skipn k call :: rest)).
Proof.
  intros I S K. destruct I as [Ipl Ipf Ipn Isl Isp Isn Ilk Iup Icl Ial Iai Ipt].
  assert (Sub : forall f, In f (concat (skipn k call :: rest)) -> In f (concat (stack st))).
  { intros f H. rewrite S. simpl in *. apply in_app_or in H. apply in_or_app. destruct H; auto. left. eapply in_skipn; eauto. }
  constructor; simpl; auto.
  - rewrite S in Isn. simpl in *. apply NoDup_skipn_app. exact Isn.
  - rewrite S in Ilk. inversion Ilk; subst. constructor.
    + apply (linked_ext st); auto. apply linked_skipn; auto.
    + eapply Forall_impl; [|exact H2]. intros c L. apply (linked_ext st); auto.
Qed.

(* ---------- MarkUsedByClosure ---------- *)
Definition set_used (fr : frame) : frame :=
  mkFrame (f_outer fr) true (f_iat fr) (f_arr fr) (f_nints fr) (f_nvals fr) (f_vcap fr) (f_act fr).

Fixpoint mark_prefix (fs : list frame) (call : list nat) : list frame :=
  match call with
  | [] => fs
  | x :: rest => if f_used (nth x fs dframe) then fs else mark_prefix (upd fs x (set_used (nth x fs dframe))) rest
  end.

(* linked over a bare frame list *)
Fixpoint linkedF (fs : list frame) (call : list nat) : Prop :=
  match call with
  | [] => False
  | x :: rest =>
      match rest with
      | [] => exists u, f_outer (nth x fs dframe) = Some u /\ u < length fs /\ f_used (nth u fs dframe) = true
      | y :: _ => f_outer (nth x fs dframe) = Some y /\ linkedF fs rest
      end
  end.

Lemma linked_linkedF st call : linked st call <-> linkedF (frames st) call.
Proof.
  induction call as [|x rest IH]; simpl; [tauto|]. destruct rest as [|y r]; [tauto|].
  unfold getf in *. rewrite IH. tauto.
Qed.

Lemma linkedF_upd fs x call : ~ In x call -> f_used (nth x fs dframe) = false -> x < length fs ->
  linkedF fs call -> linkedF (upd fs x (set_used (nth x fs dframe))) call.
Proof.
  induction call as [|y rest IH]; intros NI U Lt L; simpl in *; auto.
  assert (x <> y) by (intros ->; apply NI; left; auto).
  destruct rest as [|z r].
  - destruct L as (u & O & Lu & Uu). exists u. rewrite nth_upd_neq by auto. rewrite upd_length.
    split; [exact O|]. split; [exact Lu|]. destruct (Nat.eq_dec x u) as [->|N]; [congruence|]. rewrite nth_upd_neq by auto. exact Uu.
  - destruct L as (O & L). rewrite nth_upd_neq by auto. split; auto; apply IH; auto.
Qed.

Lemma mark_S n fs f : mark (S n) fs (Some f) =
  if f_used (nth f fs dframe) then fs else mark n (upd fs f (set_used (nth f fs dframe))) (f_outer (nth f fs dframe)).
Proof. reflexivity. Qed.
Lemma mark_stop fuel fs u : f_used (nth u fs dframe) = true -> mark fuel fs (Some u) = fs.
Proof. intros U. destruct fuel; [reflexivity|]. rewrite mark_S, U. reflexivity. Qed.

Lemma mark_eq fuel fs call : linkedF fs call -> NoDup call -> (forall x, In x call -> x < length fs) ->
  length call <= fuel -> mark fuel fs (Some (hd 0 call)) = mark_prefix fs call.
Proof.
  revert fuel fs; induction call as [|x rest IH]; intros fuel fs L ND B F; [simpl in L; contradiction|].
  destruct fuel as [|n]; [simpl in F; lia|].
  cbn [hd mark_prefix]. rewrite mark_S.
  destruct (f_used (nth x fs dframe)) eqn:U; auto.
  assert (Lx : x < length fs) by (apply B; left; auto).
  inversion ND; subst.
  destruct rest as [|y r].
  - destruct L as (u & O & Lu & Uu). rewrite O. cbn [mark_prefix].
    apply mark_stop. destruct (Nat.eq_dec x u) as [->|N]; [congruence|]. rewrite nth_upd_neq by auto. exact Uu.
  - destruct L as (O & L). rewrite O. change y with (hd 0 (y :: r)). apply IH; auto.
    + apply linkedF_upd; auto.
    + intros z Hz. rewrite upd_length. apply B. right; auto.
    + simpl in *. lia.
Qed.

Lemma mark_prefix_length fs call : length (mark_prefix fs call) = length fs.
Proof.
  revert fs; induction call as [|x r IH]; intros fs; simpl; auto.
  destruct (f_used (nth x fs dframe)); auto. rewrite IH. apply upd_length.
Qed.

(* every frame is unchanged or only gained the mark; frames outside the call are unchanged *)
Lemma mark_prefix_frame fs call g :
  nth g (mark_prefix fs call) dframe = nth g fs dframe \/
  (In g call /\ g < length fs /\ nth g (mark_prefix fs call) dframe = set_used (nth g fs dframe)).
Proof.
  revert fs; induction call as [|x r IH]; intros fs; simpl; auto.
  destruct (f_used (nth x fs dframe)) eqn:U; auto.
  destruct (IH (upd fs x (set_used (nth x fs dframe)))) as [H|(I & Lt & H)].
  - rewrite H. destruct (Nat.eq_dec x g) as [->|N].
    + destruct (lt_dec g (length fs)).
      * right. rewrite nth_upd_eq by auto. auto.
      * left. rewrite !nth_overflow; auto; try rewrite upd_length; lia.
    + left. apply nth_upd_neq; auto.
  - right. rewrite upd_length in Lt. split; auto. split; auto. rewrite H.
    destruct (Nat.eq_dec x g) as [->|N].
    + rewrite nth_upd_eq by auto. reflexivity.
    + rewrite nth_upd_neq by auto. reflexivity.
Qed.

Lemma mark_prefix_mono fs call g : f_used (nth g fs dframe) = true -> f_used (nth g (mark_prefix fs call) dframe) = true.
Proof. intros U. destruct (mark_prefix_frame fs call g) as [->|(_ & _ & ->)]; auto. Qed.
Lemma mark_prefix_outer fs call g : f_outer (nth g (mark_prefix fs call) dframe) = f_outer (nth g fs dframe).
Proof. destruct (mark_prefix_frame fs call g) as [->|(_ & _ & ->)]; auto. Qed.
Lemma mark_prefix_iat fs call g : f_iat (nth g (mark_prefix fs call) dframe) = f_iat (nth g fs dframe).
Proof. destruct (mark_prefix_frame fs call g) as [->|(_ & _ & ->)]; auto. Qed.
Lemma mark_prefix_arr fs call g : f_arr (nth g (mark_prefix fs call) dframe) = f_arr (nth g fs dframe).
Proof. destruct (mark_prefix_frame fs call g) as [->|(_ & _ & ->)]; auto. Qed.
Lemma mark_prefix_other fs call g : ~ In g call -> nth g (mark_prefix fs call) dframe = nth g fs dframe.
Proof. intros N. destruct (mark_prefix_frame fs call g) as [H|(I & _)]; auto. contradiction. Qed.

Lemma mark_prefix_hd fs x call : x < length fs -> f_used (nth x (mark_prefix fs (x :: call)) dframe) = true.
Proof.
  intros Lt. simpl. destruct (f_used (nth x fs dframe)) eqn:U; auto.
  apply mark_prefix_mono. rewrite nth_upd_eq by auto. reflexivity.
Qed.

Definition UCx (fs : list frame) (x : option nat) : Prop :=
  forall f g, f < length fs -> f_used (nth f fs dframe) = true -> f_outer (nth f fs dframe) = Some g ->
    g < length fs /\ (f_used (nth g fs dframe) = true \/ x = Some g).

Lemma mark_prefix_uc fs call : call <> [] -> linkedF fs call -> NoDup call -> (forall x, In x call -> x < length fs) ->
  UCx fs (Some (hd 0 call)) -> UCx (mark_prefix fs call) None.
Proof.
  revert fs; induction call as [|x rest IH]; intros fs NE L ND B UC; [congruence|]. simpl in *.
  assert (Lx : x < length fs) by (apply B; left; auto).
  destruct (f_used (nth x fs dframe)) eqn:U.
  - intros f g Hf Uf O. destruct (UC f g Hf Uf O) as (Lg & [Ug|E]); split; auto. inversion E; subst. auto.
  - inversion ND; subst.
    set (fs' := upd fs x (set_used (nth x fs dframe))).
    assert (Len : length fs' = length fs) by apply upd_length.
    destruct rest as [|y r].
    + simpl. destruct L as (u & O & Lu & Uu).
      intros f g Hf Uf Of. fold fs' in Hf, Uf, Of |- *. rewrite Len in *.
      destruct (Nat.eq_dec x f) as [<-|N].
      * unfold fs' in Of. rewrite nth_upd_eq in Of by auto. simpl in Of. rewrite O in Of. inversion Of; subst g.
        split; auto. left. unfold fs'. destruct (Nat.eq_dec x u) as [->|N']; [congruence|]. rewrite nth_upd_neq by auto. exact Uu.
      * unfold fs' in Uf, Of. rewrite nth_upd_neq in Uf, Of by auto.
        destruct (UC f g Hf Uf Of) as (Lg & [Ug|E]); split; auto; left; unfold fs'.
        -- destruct (Nat.eq_dec x g) as [->|N']; [rewrite nth_upd_eq by auto; reflexivity|rewrite nth_upd_neq by auto; exact Ug].
        -- inversion E; subst g. rewrite nth_upd_eq by auto. reflexivity.
    + destruct L as (O & L). apply IH; auto; try discriminate.
      * apply linkedF_upd; auto.
      * intros z Hz. fold fs'. rewrite Len. apply B. right; auto.
      * intros f g Hf Uf Of. fold fs' in Hf, Uf, Of |- *. rewrite Len in *. simpl.
        destruct (Nat.eq_dec x f) as [<-|N].
        -- unfold fs' in Of. rewrite nth_upd_eq in Of by auto. simpl in Of. rewrite O in Of. inversion Of; subst g.
           split; [apply B; right; left; auto|]. right; reflexivity.
        -- unfold fs' in Uf, Of. rewrite nth_upd_neq in Uf, Of by auto.
           destruct (UC f g Hf Uf Of) as (Lg & [Ug|E]); split; auto; left; unfold fs'.
           ++ destruct (Nat.eq_dec x g) as [->|N']; [rewrite nth_upd_eq by auto; reflexivity|rewrite nth_upd_neq by auto; exact Ug].
           ++ inversion E; subst g. rewrite nth_upd_eq by auto. reflexivity.
Qed.

(* ---------- OClosure ---------- *)
Lemma stack_head_call st call rest : Inv1 st -> stack st = call :: rest ->
  linked st call /\ NoDup call /\ (forall x, In x call -> x < nfr st) /\ call <> [] /\ cur st = hd 0 call.
Proof.
  intros I S. destruct I as [Ipl Ipf Ipn Isl Isp Isn Ilk Iup Icl Ial Iai Ipt].
  rewrite S in *. inversion Ilk; subst. simpl in Isn.
  repeat split; auto.
  - eapply NoDup_app_l; eauto.
  - intros x Hx. apply Isl. simpl. apply in_or_app. left; auto.
  - eapply linked_nonempty; eauto.
  - unfold cur, cur_call. rewrite S. reflexivity.
Qed.

Lemma inv1_closure st : Inv1 st -> stack st <> [] ->
  Inv1 (set_clos (set_frames st (mark (length (frames st)) (frames st) (Some (cur st)))) (clos st ++ [cur st])).
Proof.
  intros I NE. destruct (stack st) as [|call rest] eqn:S; [congruence|].
  destruct (stack_head_call st call rest I S) as (L & ND & B & NEc & Ecur).
  assert (LF : linkedF (frames st) call) by (apply linked_linkedF; auto).
  assert (Len : length call <= length (frames st)) by (apply nodup_bound_length; auto).
  rewrite Ecur. rewrite (mark_eq _ _ _ LF ND B Len).
  set (fs' := mark_prefix (frames st) call).
  pose proof I as I0. destruct I as [Ipl Ipf Ipn Isl Isp Isn Ilk Iup Icl Ial Iai Ipt].
  assert (Hlen : length fs' = length (frames st)) by apply mark_prefix_length.
  assert (Huc : UCx fs' None).
  { apply mark_prefix_uc; auto. intros f g Hf Uf Of. destruct (Iup f g Hf Uf Of). split; auto. }
  assert (Hcall : forall x, In x call -> In x (concat (stack st))).
  { intros x Hx. rewrite S. simpl. apply in_or_app. left; auto. }
  constructor; simpl; unfold nfr, used, getf, narr; simpl; try rewrite Hlen; auto.
  - intros f P. assert (NI : ~ In f call) by (intros C; apply (Isp f (Hcall f C) P)).
    unfold fs'. rewrite mark_prefix_other by auto. apply Ipf; auto.
  - rewrite S. rewrite S in Ilk. eapply Forall_impl; [|exact Ilk]. intros c Lc.
    apply (linked_ext st); auto.
    + intros x _. unfold getf; simpl. apply mark_prefix_outer.
    + intros u Lu Uu. unfold nfr, used, getf; simpl. rewrite Hlen. split; auto. apply mark_prefix_mono. exact Uu.
  - intros f g Hf Uf Of. assert (Hf' : f < length fs') by (rewrite Hlen; exact Hf).
    destruct (Huc f g Hf' Uf Of) as (Lg & [Ug|E]); [|discriminate]. rewrite Hlen in Lg. auto.
  - intros f Hf. apply in_app_or in Hf. destruct Hf as [Hf|[<-|[]]].
    + destruct (Icl f Hf). split; auto. apply mark_prefix_mono. auto.
    + destruct call as [|x c]; [congruence|]. simpl. split; [apply B; left; auto|].
      apply mark_prefix_hd. apply B. left; auto.
  - intros f a Hf A. unfold fs' in A. rewrite mark_prefix_arr in A. eapply Ial; eauto.
  - intros f g a Hf Hg A1 A2. unfold fs' in A1, A2. rewrite mark_prefix_arr in A1, A2. eapply Iai; eauto.
  - intros a i H. destruct (Ipt a i H) as (La & Hp). split; auto.
    intros f Hf A. unfold fs' in *. rewrite mark_prefix_arr in A. rewrite mark_prefix_iat. apply Hp; auto.
Qed.

(* ---------- OAddr ---------- *)
Definition set_iat (fr : frame) : frame :=
  mkFrame (f_outer fr) (f_used fr) true (f_arr fr) (f_nints fr) (f_nvals fr) (f_vcap fr) (f_act fr).

Lemma loc_of_arr st f upn slot a i : loc_of st f upn slot = Some (a, i) ->
  exists g, up (frames st) upn f = Some g /\ f_arr (getf st g) = Some a /\ i = slot /\ slot < f_nints (getf st g).
Proof.
  unfold loc_of. destruct (up (frames st) upn f) as [g|]; [|discriminate].
  destruct (slot <? f_nints (getf st g)) eqn:C; [|discriminate].
  destruct (f_arr (getf st g)) as [b|] eqn:FA; [|discriminate]. intros H; inversion H; subst.
  exists g. apply Nat.ltb_lt in C. repeat split; auto.
Qed.

Lemma inv1_addr st g a i : Inv1 st -> live st g -> f_arr (getf st g) = Some a ->
  Inv1 (set_ptrs (setf st g (set_iat (getf st g))) (ptrs st ++ [(a, i)])).
Proof.
  intros I Lg A. pose proof (live_lt _ _ I Lg) as Lt. pose proof (live_not_pooled _ _ I Lg) as NP.
  destruct I as [Ipl Ipf Ipn Isl Isp Isn Ilk Iup Icl Ial Iai Ipt].
  assert (G : forall x, getf (set_ptrs (setf st g (set_iat (getf st g))) (ptrs st ++ [(a, i)])) x =
               if Nat.eq_dec g x then set_iat (getf st g) else getf st x).
  { intros x. destruct (Nat.eq_dec g x) as [<-|N]; unfold getf; simpl; [apply nth_upd_eq; auto|apply nth_upd_neq; auto]. }
  assert (Go : forall x, f_outer (getf (set_ptrs (setf st g (set_iat (getf st g))) (ptrs st ++ [(a, i)])) x) = f_outer (getf st x)).
  { intros x. rewrite G. destruct (Nat.eq_dec g x) as [<-|]; reflexivity. }
  assert (Gu : forall x, f_used (getf (set_ptrs (setf st g (set_iat (getf st g))) (ptrs st ++ [(a, i)])) x) = f_used (getf st x)).
  { intros x. rewrite G. destruct (Nat.eq_dec g x) as [<-|]; reflexivity. }
  assert (Ga : forall x, f_arr (getf (set_ptrs (setf st g (set_iat (getf st g))) (ptrs st ++ [(a, i)])) x) = f_arr (getf st x)).
  { intros x. rewrite G. destruct (Nat.eq_dec g x) as [<-|]; reflexivity. }
  assert (Nf : nfr (set_ptrs (setf st g (set_iat (getf st g))) (ptrs st ++ [(a, i)])) = nfr st).
  { unfold nfr; simpl. apply upd_length. }
  constructor; unfold used; try rewrite Nf; simpl; auto.
  - intros f P. rewrite G. destruct (Nat.eq_dec g f) as [<-|N]; [contradiction|]. apply Ipf; auto.
  - eapply Forall_impl; [|exact Ilk]. intros c Lc. apply (linked_ext st); auto.
    intros u Lu Uu. rewrite Nf. unfold used. rewrite Gu. auto.
  - intros f h Hf Uf Of. rewrite Gu in *. rewrite Go in Of. apply (Iup f h); auto.
  - intros f Hf. rewrite Gu. apply Icl; auto.
  - intros f b Hf B. rewrite Ga in B. unfold narr; simpl. eapply Ial; eauto.
  - intros f h b Hf Hh B1 B2. rewrite Ga in B1, B2. eapply Iai; eauto.
  - intros b j H. apply in_app_or in H. unfold narr; simpl. destruct H as [H|[E|[]]].
    + destruct (Ipt b j H) as (Lb & Hp). split; auto. intros f Hf B. rewrite Ga in B. rewrite G.
      destruct (Nat.eq_dec g f) as [<-|N]; [reflexivity|]. apply Hp; auto.
    + inversion E; subst b j. split; [eapply Ial; eauto|]. intros f Hf B. rewrite Ga in B.
      assert (g = f) by (eapply Iai; eauto). subst f. rewrite G. destruct (Nat.eq_dec g g); [reflexivity|congruence].
Qed.

(* ---------- newEnv + push ---------- *)
Lemma new_env_fresh st outer nv ni st' f : Inv1 st -> new_env st outer nv ni = (st', f) ->
  new_env_post st outer nv ni st' f /\ ~ In f (concat (stack st)) /\ ~ In f (pool st') /\ f < nfr st' /\
  (forall g, live st g -> g <> f) /\ f_used (getf st f) = false /\ f_iat (getf st f) = false /\ nfr st <= nfr st'.
Proof.
  intros I H. pose proof I as I0. destruct I as [Ipl Ipf Ipn Isl Isp Isn Ilk Iup Icl Ial Iai Ipt].
  assert (P : new_env_post st outer nv ni st' f) by (eapply new_env_spec; eauto).
  split; auto. destruct P as [ne_f0 ne_pool0 ne_nfr0 ne_stack0 ne_clos0 ne_ptrs0 ne_nact0 ne_other0 ne_outer0 ne_used0 ne_iat0 ne_nints0 ne_act0 ne_narr0 ne_data0 ne_owner0 ne_newarr0 ne_arr0 ne_arr_none0]. unfold taken in ne_f0.
  destruct (pool st) as [|p ps] eqn:Pool.
  - subst f. simpl in *. repeat split.
    + intros C. apply Isl in C. lia.
    + rewrite ne_pool0. auto.
    + lia.
    + intros g L E. apply (live_lt _ _ I0) in L. lia.
    + rewrite getf_fresh. reflexivity.
    + rewrite getf_fresh. reflexivity.
    + lia.
  - subst f. simpl in *. assert (Pp : In p (pool st)) by (rewrite Pool; left; auto).
    rewrite Pool in *. inversion Ipn; subst. repeat split.
    + intros C. apply (Isp p C). left; auto.
    + auto.
    + rewrite ne_nfr0. apply Ipl. left; auto.
    + intros g L E. subst g. apply (live_not_pooled _ _ I0 L). rewrite Pool. left; auto.
    + apply Ipf. left; auto.
    + apply Ipf. left; auto.
    + lia.
Qed.

Lemma inv1_new_env st outer nv ni st' f ns : Inv1 st -> new_env st outer nv ni = (st', f) ->
  live st outer ->
  (forall x, In x (concat ns) -> x = f \/ In x (concat (stack st))) ->
  NoDup (concat ns) ->
  Forall (linked (set_stack st' ns)) ns ->
  Inv1 (set_stack st' ns).
Proof.
  intros I H Lo Hns NDns Lns.
  destruct (new_env_fresh _ _ _ _ _ _ I H) as (P & Fs & Fp & Flt & Flive & Fu & Fi & Fn).
  pose proof I as I0. destruct I as [Ipl Ipf Ipn Isl Isp Isn Ilk Iup Icl Ial Iai Ipt].
  destruct P as [ne_f0 ne_pool0 ne_nfr0 ne_stack0 ne_clos0 ne_ptrs0 ne_nact0 ne_other0 ne_outer0 ne_used0 ne_iat0 ne_nints0 ne_act0 ne_narr0 ne_data0 ne_owner0 ne_newarr0 ne_arr0 ne_arr_none0].
  assert (Nf : nfr (set_stack st' ns) = nfr st') by reflexivity.
  assert (G : forall x, getf (set_stack st' ns) x = getf st' x) by reflexivity.
  assert (Other : forall g, g <> f -> g < nfr st -> getf st' g = getf st g) by exact ne_other0.
  assert (PoolSub : forall g, In g (pool st') -> In g (pool st) /\ g <> f).
  { intros g Hg. rewrite ne_pool0 in Hg. destruct (pool st) as [|p ps] eqn:Pool; simpl in *; [contradiction|].
    unfold taken in ne_f0. rewrite Pool in ne_f0. subst f. inversion Ipn; subst. split; auto. intros ->. contradiction. }
  constructor; unfold used; try rewrite Nf; simpl;
    change (getf (set_stack st' ns)) with (getf st'); change (narr (set_stack st' ns)) with (narr st'); auto.
  - intros g Hg. destruct (PoolSub g Hg). specialize (Ipl g H0). lia.
  - intros g Hg. destruct (PoolSub g Hg). rewrite Other; auto.
  - rewrite ne_pool0. destruct (pool st); simpl; auto. inversion Ipn; auto.
  - intros x Hx. destruct (Hns x Hx) as [->|Hx']; auto. specialize (Isl x Hx'). lia.
  - intros x Hx Px. destruct (Hns x Hx) as [->|Hx']; [contradiction|]. destruct (PoolSub x Px). apply (Isp x Hx'); auto.
  - intros g h Hg Ug Og. destruct (Nat.eq_dec g f) as [->|N].
    + rewrite ne_used0 in Ug. congruence.
    + assert (Lg : g < nfr st).
      { destruct (lt_dec g (nfr st)); auto. exfalso. destruct (pool st) as [|p ps] eqn:Pool; [|lia].
        unfold taken in ne_f0. rewrite Pool in ne_f0. lia. }
      rewrite Other in Ug, Og by auto. destruct (Iup g h Lg Ug Og) as (Lh & Uh).
      assert (h <> f) by (apply Flive; right; auto). rewrite Other by auto. split; auto. lia.
  - intros g Hg. rewrite ne_clos0 in Hg. destruct (Icl g Hg) as (Lg & Ug).
    assert (g <> f) by (apply Flive; right; auto). rewrite Other by auto. split; auto. lia.
  - intros g a Hg A. destruct (Nat.eq_dec g f) as [->|N].
    + destruct (ne_arr0 a A) as (La & _). exact La.
    + assert (Lg : g < nfr st).
      { destruct (lt_dec g (nfr st)); auto. exfalso. destruct (pool st) as [|p ps] eqn:Pool; [|lia].
        unfold taken in ne_f0. rewrite Pool in ne_f0. lia. }
      rewrite Other in A by auto. specialize (Ial g a Lg A). unfold narr in *. simpl. lia.
  - intros g h a Hg Hh A1 A2.
    assert (Lt : forall x, x < nfr st' -> x <> f -> x < nfr st).
    { intros x Hx Nx. destruct (lt_dec x (nfr st)); auto. exfalso. destruct (pool st) as [|p ps] eqn:Pool; [|lia].
      unfold taken in ne_f0. rewrite Pool in ne_f0. lia. }
    destruct (Nat.eq_dec g f) as [->|Ng]; destruct (Nat.eq_dec h f) as [->|Nh]; auto.
    + exfalso. rewrite Other in A2 by auto. pose proof (Ial h a (Lt h Hh Nh) A2) as La.
      destruct (ne_arr0 a A1) as (_ & _ & _ & Hold). destruct (Hold La) as (A1' & Pne).
      assert (f = h). { apply (Iai f h a); auto. destruct (pool st) as [|p ps] eqn:Pool; [congruence|].
        unfold taken in ne_f0. rewrite Pool in ne_f0. subst f. apply Ipl. left; auto. }
      congruence.
    + exfalso. rewrite Other in A1 by auto. pose proof (Ial g a (Lt g Hg Ng) A1) as La.
      destruct (ne_arr0 a A2) as (_ & _ & _ & Hold). destruct (Hold La) as (A2' & Pne).
      assert (f = g). { apply (Iai f g a); auto. destruct (pool st) as [|p ps] eqn:Pool; [congruence|].
        unfold taken in ne_f0. rewrite Pool in ne_f0. subst f. apply Ipl. left; auto. }
      congruence.
    + rewrite Other in A1, A2 by auto. apply (Iai g h a); auto.
  - intros a i Hp. rewrite ne_ptrs0 in Hp. destruct (Ipt a i Hp) as (La & Hiat).
    split; [unfold narr in *; lia|]. intros g Hg A. destruct (Nat.eq_dec g f) as [->|N].
    + exfalso. destruct (ne_arr0 a A) as (_ & _ & _ & Hold). destruct (Hold La) as (A' & Pne).
      assert (Lf : f < nfr st).
      { destruct (pool st) as [|p ps] eqn:Pool; [congruence|]. unfold taken in ne_f0. rewrite Pool in ne_f0. subst f. apply Ipl. left; auto. }
      specialize (Hiat f Lf A'). congruence.
    + assert (Lg : g < nfr st).
      { destruct (lt_dec g (nfr st)); auto. exfalso. destruct (pool st) as [|p ps] eqn:Pool; [|lia].
        unfold taken in ne_f0. rewrite Pool in ne_f0. lia. }
      rewrite Other in A |- * by auto. apply Hiat; auto.
Qed.

(* ---------- freeEnv + pop ---------- *)
Lemma inv1_pop_only st ns : Inv1 st ->
  (forall x, In x (concat ns) -> In x (concat (stack st))) -> NoDup (concat ns) -> Forall (linked st) ns ->
  Inv1 (set_stack st ns).
Proof.
  intros I Hns ND L. destruct I as [Ipl Ipf Ipn Isl Isp Isn Ilk Iup Icl Ial Iai Ipt].
  constructor; simpl; auto.
  eapply Forall_impl; [|exact L]. intros c Lc. apply (linked_ext st); auto.
Qed.

Lemma inv1_free K st f ns : Inv1 st -> In f (concat (stack st)) ->
  (forall x, In x (concat ns) -> In x (concat (stack st)) /\ x <> f) -> NoDup (concat ns) -> Forall (linked st) ns ->
  Inv1 (set_stack (free_env K st f) ns).
Proof.
  intros I Hf Hns ND L. unfold free_env.
  destruct (f_used (getf st f)) eqn:U.
  { apply inv1_pop_only; auto. intros x Hx. apply Hns; auto. }
  destruct (K <=? length (pool st)) eqn:Full.
  { apply inv1_pop_only; auto. intros x Hx. apply Hns; auto. }
  pose proof I as I0. destruct I as [Ipl Ipf Ipn Isl Isp Isn Ilk Iup Icl Ial Iai Ipt].
  assert (Lf : f < nfr st) by (apply Isl; auto).
  set (fr' := if f_iat (getf st f)
              then mkFrame None false false None 0 (f_nvals (getf st f)) (f_vcap (getf st f)) (f_act (getf st f))
              else mkFrame None false false (f_arr (getf st f)) (f_nints (getf st f)) (f_nvals (getf st f)) (f_vcap (getf st f)) (f_act (getf st f))).
  set (st' := set_stack (set_pool (setf st f fr') (f :: pool st)) ns).
  assert (G : forall x, getf st' x = if Nat.eq_dec f x then fr' else getf st x).
  { intros x. destruct (Nat.eq_dec f x) as [<-|N]; unfold getf; simpl; [apply nth_upd_eq; auto|apply nth_upd_neq; auto]. }
  assert (Nf : nfr st' = nfr st) by (unfold nfr; simpl; apply upd_length).
  assert (Fu : f_used fr' = false) by (unfold fr'; destruct (f_iat (getf st f)); reflexivity).
  assert (Fi : f_iat fr' = false) by (unfold fr'; destruct (f_iat (getf st f)); reflexivity).
  assert (Fo : f_outer fr' = None) by (unfold fr'; destruct (f_iat (getf st f)); reflexivity).
  assert (Fa : forall a, f_arr fr' = Some a -> f_arr (getf st f) = Some a /\ f_iat (getf st f) = false).
  { intros a. unfold fr'. destruct (f_iat (getf st f)); simpl; [discriminate|auto]. }
  assert (Gother : forall x, x <> f -> getf st' x = getf st x).
  { intros x N. rewrite G. destruct (Nat.eq_dec f x); [congruence|reflexivity]. }
  assert (Gf : getf st' f = fr') by (rewrite G; destruct (Nat.eq_dec f f); [reflexivity|congruence]).
  assert (UsedNe : forall x, used st x -> x <> f) by (intros x Ux ->; unfold used in Ux; congruence).
  fold fr'. fold st'.
  constructor; unfold used; try rewrite Nf; simpl; auto.
  - intros x [<-|Hx]; auto.
  - intros x [<-|Hx]; [rewrite Gf; auto|]. assert (x <> f) by (intros ->; apply (Isp f Hf Hx)). rewrite Gother by auto. apply Ipf; auto.
  - constructor; auto.
  - intros x Hx. apply Isl. apply Hns; auto.
  - intros x Hx [<-|Px]; [destruct (Hns _ Hx); congruence|]. apply (Isp x); auto. apply Hns; auto.
  - eapply Forall_impl with (P := fun c => linked st c /\ forall x, In x c -> In x (concat ns)).
    + intros c (Lc & Sub). apply (linked_ext st); auto.
      * intros x Hx. rewrite Gother; auto. apply (Hns x). auto.
      * intros u Lu Uu. rewrite Nf. unfold used. rewrite Gother by auto. auto.
    + rewrite Forall_forall in *. intros c Hc. split; auto. intros x Hx. apply in_concat. eauto.
  - intros x g Hx Ux Ox. assert (x <> f) by (intros ->; rewrite Gf in Ux; congruence).
    rewrite Gother in Ux, Ox by auto. destruct (Iup x g Hx Ux Ox) as (Lg & Ug). rewrite Gother by auto. auto.
  - intros x Hx. destruct (Icl x Hx) as (Lx & Ux). rewrite Gother by auto. auto.
  - intros x a Hx A. unfold narr; simpl. destruct (Nat.eq_dec x f) as [->|N].
    + rewrite Gf in A. destruct (Fa a A). eapply Ial; eauto.
    + rewrite Gother in A by auto. eapply Ial; eauto.
  - intros x y a Hx Hy A1 A2.
    assert (A1' : f_arr (getf st x) = Some a).
    { destruct (Nat.eq_dec x f) as [->|N]; [rewrite Gf in A1; apply Fa; auto|rewrite Gother in A1; auto]. }
    assert (A2' : f_arr (getf st y) = Some a).
    { destruct (Nat.eq_dec y f) as [->|N]; [rewrite Gf in A2; apply Fa; auto|rewrite Gother in A2; auto]. }
    eapply Iai; eauto.
  - intros a i Hp. destruct (Ipt a i Hp) as (La & Hiat). unfold narr; simpl. split; auto.
    intros x Hx A. destruct (Nat.eq_dec x f) as [->|N].
    + exfalso. rewrite Gf in A. destruct (Fa a A) as (A' & Ifalse). specialize (Hiat f Lf A'). congruence.
    + rewrite Gother in A |- * by auto. apply Hiat; auto.
Qed.

(* ---------- every operation ---------- *)
Lemma inv1_write_args args : forall st f i, Inv1 st -> Inv1 (write_args st f i args).
Proof.
  induction args as [|v args IH]; intros st f i I; simpl; auto.
  apply IH. destruct (loc_of st f 0 i); auto. apply inv1_wr; auto.
Qed.

Lemma write_args_stack args : forall st f i, stack (write_args st f i args) = stack st.
Proof.
  induction args as [|v args IH]; intros st f i; simpl; auto. rewrite IH. destruct (loc_of st f 0 i); reflexivity.
Qed.
Lemma write_args_frames args : forall st f i, frames (write_args st f i args) = frames st.
Proof.
  induction args as [|v args IH]; intros st f i; simpl; auto. rewrite IH. destruct (loc_of st f 0 i); reflexivity.
Qed.

Lemma write_args_set_stack args : forall st f i s,
  write_args (set_stack st s) f i args = set_stack (write_args st f i args) s.
Proof.
  induction args as [|v args IH]; intros st f i s; simpl; auto.
  change (loc_of (set_stack st s) f 0 i) with (loc_of st f 0 i).
  destruct (loc_of st f 0 i) as [l|]; [|apply IH].
  change (wr (set_stack st s) l v) with (set_stack (wr st l v) s). apply IH.
Qed.

Lemma set_stack_same st : Inv1 st -> forall st2, frames st2 = frames st -> pool st2 = pool st -> clos st2 = clos st ->
  ptrs st2 = ptrs st -> narr st2 = narr st -> stack st2 = stack st -> Inv1 st2.
Proof.
  intros I st2 F P C Pt N S. destruct I as [Ipl Ipf Ipn Isl Isp Isn Ilk Iup Icl Ial Iai Ipt].
  constructor; unfold used, nfr, getf in *; rewrite ?F, ?P, ?C, ?Pt, ?N, ?S; auto.
  eapply Forall_impl; [|exact Ilk]. intros c Lc. apply (linked_ext st); auto.
  - intros x _. unfold getf. rewrite F. reflexivity.
  - intros u Lu Uu. unfold nfr, used, getf in *. rewrite F. auto.
Qed.

Lemma inv1_stack_ne st : Inv1 st -> length (stack st) >= 1 -> stack st <> [].
Proof. intros _ H E. rewrite E in H. simpl in H. lia. Qed.

Lemma linked_after_new_env st outer nv ni st1 f ns c : Inv1 st -> new_env st outer nv ni = (st1, f) ->
  In c (stack st) -> linked st c -> linked (set_stack st1 ns) c.
Proof.
  intros I N Hc L.
  destruct (new_env_fresh _ _ _ _ _ _ I N) as (P & Fs & Fp & Flt & Flive & Fu & Fi & Fn).
  destruct P as [ne_f0 ne_pool0 ne_nfr0 ne_stack0 ne_clos0 ne_ptrs0 ne_nact0 ne_other0 ne_outer0 ne_used0 ne_iat0 ne_nints0 ne_act0 ne_narr0 ne_data0 ne_owner0 ne_newarr0 ne_arr0 ne_arr_none0].
  apply (linked_ext st); auto.
  - intros x Hx. change (getf (set_stack st1 ns)) with (getf st1).
    assert (Sx : In x (concat (stack st))) by (apply in_concat; eauto).
    assert (x <> f) by (intros ->; auto). rewrite ne_other0; auto. apply (i_stack_lt _ I); auto.
  - intros u Lu Uu. change (nfr (set_stack st1 ns)) with (nfr st1). unfold used.
    change (getf (set_stack st1 ns)) with (getf st1).
    assert (u <> f) by (apply Flive; right; auto). rewrite ne_other0 by auto. split; auto. lia.
Qed.

Lemma inv1_step K st o : Inv1 st -> stack st <> [] -> Inv1 (fst (step K st o)) /\ stack (fst (step K st o)) <> [].
Proof.
  intros I NE. destruct o; simpl.
  - (* OCall *)
    destruct (nth_error (clos st) c) as [outer|] eqn:C; simpl; auto.
    destruct (new_env st outer nv ni) as [st1 f] eqn:N.
    assert (Co : In outer (clos st)) by (eapply nth_error_In; eauto).
    assert (Lo : live st outer). { destruct (i_clos _ I outer Co). right; auto. }
    destruct (new_env_fresh _ _ _ _ _ _ I N) as (P & Fs & Fp & Flt & Flive & Fu & Fi & Fn).
    assert (I1 : Inv1 (set_stack st1 ([f] :: stack st))).
    { eapply inv1_new_env; eauto.
      - intros x Hx. simpl in Hx. destruct Hx as [->|Hx]; auto.
      - simpl. constructor; auto. apply (i_stack_nodup _ I).
      - constructor.
        + destruct P as [ne_f0 ne_pool0 ne_nfr0 ne_stack0 ne_clos0 ne_ptrs0 ne_nact0 ne_other0 ne_outer0 ne_used0 ne_iat0 ne_nints0 ne_act0 ne_narr0 ne_data0 ne_owner0 ne_newarr0 ne_arr0 ne_arr_none0].
          simpl. exists outer. unfold used. change (getf (set_stack st1 ([f] :: stack st))) with (getf st1).
          change (nfr (set_stack st1 ([f] :: stack st))) with (nfr st1).
          assert (outer <> f) by (apply Flive; auto). pose proof (live_lt _ _ I Lo).
          rewrite (ne_other0 outer) by auto. split; auto. split; [lia|]. apply (i_clos _ I outer Co).
        + pose proof (i_linked _ I) as LK. rewrite Forall_forall in *. intros c0 Hc0.
          eapply linked_after_new_env; eauto. }
    set (st2 := write_args st1 f 0 args).
    split; [|simpl; discriminate].
    assert (I2 : Inv1 (write_args (set_stack st1 ([f] :: stack st)) f 0 args)) by (apply inv1_write_args; auto).
    destruct P as [ne_f0 ne_pool0 ne_nfr0 ne_stack0 ne_clos0 ne_ptrs0 ne_nact0 ne_other0 ne_outer0 ne_used0 ne_iat0 ne_nints0 ne_act0 ne_narr0 ne_data0 ne_owner0 ne_newarr0 ne_arr0 ne_arr_none0].
    assert (E : set_stack st2 ([f] :: stack st2) = write_args (set_stack st1 ([f] :: stack st)) f 0 args).
    { unfold st2. rewrite write_args_stack, ne_stack0. symmetry. apply write_args_set_stack. }
    rewrite E. exact I2.
  - (* ORet *)
    destruct (stack st) as [|call [|caller rest]] eqn:S; simpl; auto; try (split; auto; rewrite S; discriminate).
    split; [|simpl; discriminate].
    assert (Lk : Forall (linked st) (call :: caller :: rest)) by (rewrite <- S; apply (i_linked _ I)).
    inversion Lk; subst.
    assert (Hlast : In (last_frame call) call).
    { unfold last_frame. destruct call as [|x c]; [simpl in H1; contradiction|]. apply (@exists_last _ (x :: c)) in NE as (l' & a & E) || idtac.
      destruct (@exists_last _ (x :: c)) as (l' & a & E); [discriminate|]. rewrite E. rewrite last_last. apply in_or_app. right; left; auto. }
    apply inv1_free; auto.
    + rewrite S. simpl. apply in_or_app. left; auto.
    + intros x Hx. split.
      * rewrite S. simpl. apply in_or_app. right. exact Hx.
      * intros ->. pose proof (i_stack_nodup _ I) as ND. rewrite S in ND. simpl in ND.
        eapply NoDup_app_disj; eauto.
    + pose proof (i_stack_nodup _ I) as ND. rewrite S in ND. simpl in ND. eapply NoDup_app_r; eauto.
  - (* OBlock *)
    destruct (stack st) as [|call rest] eqn:S; [congruence|].
    destruct (new_env st (cur st) nv ni) as [st1 f] eqn:N. simpl. split; [|discriminate].
    destruct (stack_head_call st call rest I S) as (L & ND & B & NEc & Ecur).
    assert (Lo : live st (cur st)) by (apply cur_live; auto; congruence).
    destruct (new_env_fresh _ _ _ _ _ _ I N) as (P & Fs & Fp & Flt & Flive & Fu & Fi & Fn).
    eapply inv1_new_env; eauto.
    + intros x Hx. rewrite S. simpl in *. destruct Hx as [->|Hx]; auto.
    + simpl. constructor; [rewrite S in Fs; exact Fs|]. pose proof (i_stack_nodup _ I) as X. rewrite S in X. exact X.
    + pose proof (i_linked _ I) as LK. rewrite S in LK. inversion LK; subst. constructor.
      * destruct call as [|x c]; [congruence|].
        change (f_outer (getf (set_stack st1 ((f :: x :: c) :: rest)) f) = Some x /\ linked (set_stack st1 ((f :: x :: c) :: rest)) (x :: c)). split.
        -- destruct P as [ne_f0 ne_pool0 ne_nfr0 ne_stack0 ne_clos0 ne_ptrs0 ne_nact0 ne_other0 ne_outer0 ne_used0 ne_iat0 ne_nints0 ne_act0 ne_narr0 ne_data0 ne_owner0 ne_newarr0 ne_arr0 ne_arr_none0].
           change (getf (set_stack st1 ((f :: x :: c) :: rest))) with (getf st1). rewrite ne_outer0. rewrite Ecur. reflexivity.
        -- eapply linked_after_new_env; eauto. rewrite S. left; auto.
      * rewrite Forall_forall in *. intros c0 Hc0. eapply linked_after_new_env; eauto. rewrite S. right; auto.
  - (* OBlockEnd *)
    destruct (stack st) as [|[|b [|g call']] rest] eqn:S; simpl; auto; try (split; auto; rewrite S; discriminate).
    split; [|simpl; discriminate].
    assert (Lk : Forall (linked st) ((b :: g :: call') :: rest)) by (rewrite <- S; apply (i_linked _ I)).
    inversion Lk; subst. pose proof (i_stack_nodup _ I) as ND. rewrite S in ND. simpl in ND.
    apply inv1_free; auto.
    + rewrite S. simpl. left; auto.
    + intros x Hx. split.
      * rewrite S. simpl. right. exact Hx.
      * intros ->. inversion ND; subst. apply H3. exact Hx.
    + inversion ND; auto.
    + constructor; auto. simpl in H1. destruct H1 as (_ & L). exact L.
  - (* OLeave *)
    destruct (stack st) as [|call rest] eqn:S; [congruence|].
    destruct (k <? length call) eqn:Kk; simpl; [|split; auto; rewrite S; discriminate].
    apply Nat.ltb_lt in Kk. split; [|discriminate]. apply inv1_leave; auto.
  - (* OClosure *)
    split; [apply inv1_closure; auto|simpl; auto].
  - (* OAddr *)
    destruct (up (frames st) upn (cur st)) as [g|] eqn:U; simpl; auto.
    destruct (loc_of st (cur st) upn slot) as [[a i]|] eqn:Lc; simpl; auto.
    split; auto.
    destruct (loc_of_arr _ _ _ _ _ _ Lc) as (g' & U' & A & _ & _). rewrite U in U'. inversion U'; subst g'.
    assert (Lg : live st g) by (eapply up_live; eauto; apply cur_live; auto).
    apply (inv1_addr st g a i I Lg A).
  - (* OSet *)
    destruct (loc_of st (cur st) upn slot); simpl; auto. split; auto. apply inv1_wr; auto.
  - (* OGet *)
    destruct (loc_of st (cur st) upn slot); simpl; auto.
  - (* OPSet *)
    destruct (nth_error (ptrs st) p); simpl; auto. split; auto. apply inv1_wr; auto.
  - (* OPGet *)
    destruct (nth_error (ptrs st) p); simpl; auto.
Qed.

(* ---------- histories ---------- *)
Lemma run_app K ops1 : forall st ops2,
  fst (run K st (ops1 ++ ops2)) = fst (run K (fst (run K st ops1)) ops2).
Proof.
  induction ops1 as [|o ops1 IH]; intros st ops2; simpl; auto.
  destruct (step K st o) as [st1 r] eqn:E.
  specialize (IH st1 ops2).
  destruct (run K st1 (ops1 ++ ops2)) as [s2 r2] eqn:E2. destruct (run K st1 ops1) as [s3 r3] eqn:E3. simpl in *.
  exact IH.
Qed.

Lemma inv1_run K ops : forall st, Inv1 st -> stack st <> [] ->
  Inv1 (fst (run K st ops)) /\ stack (fst (run K st ops)) <> [].
Proof.
  induction ops as [|o ops IH]; intros st I NE; simpl; auto.
  destruct (step K st o) as [st1 r] eqn:E.
  destruct (inv1_step K st o I NE) as (I1 & NE1). rewrite E in I1, NE1. simpl in I1, NE1.
  destruct (IH st1 I1 NE1) as (I2 & NE2). destruct (run K st1 ops) as [s2 r2]. simpl in *. auto.
Qed.

Lemma inv1_exec K ops : Inv1 (exec K ops) /\ stack (exec K ops) <> [].
Proof. unfold exec. apply inv1_run; [apply inv1_init|simpl; discriminate]. Qed.

(* reachability from the roots of the program: active frames and closures, through Outer *)
Inductive reach (st : state) : nat -> Prop :=
| reach_active f : In f (concat (stack st)) -> reach st f
| reach_closure f : In f (clos st) -> reach st f
| reach_outer f g : reach st f -> f_outer (getf st f) = Some g -> reach st g.

Lemma reach_live st f : Inv1 st -> reach st f -> live st f.
Proof.
  intros I R. induction R.
  - left; auto.
  - right. apply (i_clos _ I); auto.
  - apply (live_outer st f g I IHR H).
Qed.

Lemma marked_upward_closed K ops f g : let st := exec K ops in
  f < nfr st -> f_used (getf st f) = true -> f_outer (getf st f) = Some g -> g < nfr st /\ f_used (getf st g) = true.
Proof. intros st. destruct (inv1_exec K ops) as (I & _). apply (i_up _ I). Qed.

Lemma pool_unreachable K ops f : let st := exec K ops in In f (pool st) ->
  ~ reach st f /\
  (forall p, In p (ptrs st) -> f_arr (getf st f) <> Some (fst p)) /\
  f_used (getf st f) = false /\ f_iat (getf st f) = false.
Proof.
  intros st P. destruct (inv1_exec K ops) as (I & _). fold st in I.
  destruct (i_pool_flags _ I f P) as (U & A). repeat split; auto.
  - intros R. apply (live_not_pooled st f I (reach_live st f I R) P).
  - intros [a i] Hp E. simpl in E. destruct (i_ptr _ I a i Hp) as (_ & Hi).
    specialize (Hi f (i_pool_lt _ I f P) E). congruence.
Qed.

Lemma pool_bounded_nodup K ops : NoDup (pool (exec K ops)).
Proof. destruct (inv1_exec K ops) as (I & _). apply (i_pool_nodup _ I). Qed.

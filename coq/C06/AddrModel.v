(* C06 — address-of, with an explicit account of WHICH frame gets IntAddressTaken relative to where `&x` is evaluated
   (fast/address.go, Var.Address).  Definitions only (no proofs).

   Var.Address is generated code: one closure per kind (16 kinds live in Env.Ints) and per upn = number of Envs
   between the frame that evaluates `&x` and the frame that OWNS x (upn 0, 1, 2, the >= 3 loop, FileEnv).  Each of them
       env = env.Outer   (upn times)
       env.IntAddressTaken = true
       return &env.Ints[slot]
   Model.v's [OAddr upn slot] is exactly that.  [addr_of_int early] makes the position of the flag assignment inside
   the Outer walk a parameter: [early] = number of hops still to be made when the flag is set.  The code has early = 0
   (the flag lands on the owner); early = 1 with upn = 1 is the independently seeded regression
   C08-addr-flag-uint32-outer (flag set before `env = env.Outer`: the frame evaluating `&x` is flagged, the owner is
   not).  The pointer itself always targets the Ints array of the frame upn hops up. *)
From Coq Require Import List Arith ZArith Bool.
From Verif Require Import C06.Model.
Import ListNotations.

Definition set_iat (fr : frame) : frame :=
  mkFrame (f_outer fr) (f_used fr) true (f_arr fr) (f_nints fr) (f_nvals fr) (f_vcap fr) (f_act fr).

(* the frame that owns the variable (upn, _) seen from the current frame *)
Definition owner_of (st : state) (upn : nat) : option nat := up (frames st) upn (cur st).

Definition addr_of_int (early : nat) (st : state) (upn slot : nat) : state * out :=
  match up (frames st) (upn - early) (cur st), loc_of st (cur st) upn slot with
  | Some g, Some l => (set_ptrs (setf st g (set_iat (getf st g))) (ptrs st ++ [l]), RNone)
  | _, _ => (st, RBad)
  end.

(* the frame machine of Model.v with the parametrised address-of *)
Definition step_e (early K : nat) (st : state) (o : op) : state * out :=
  match o with
  | OAddr upn slot => addr_of_int early st upn slot
  | _ => step K st o
  end.

Fixpoint run_e (early K : nat) (st : state) (ops : list op) : state * list out :=
  match ops with
  | [] => (st, [])
  | o :: ops' => let '(st1, r) := step_e early K st o in let '(st2, rs) := run_e early K st1 ops' in (st2, r :: rs)
  end.

Definition exec_e (early K : nat) (ops : list op) : state := fst (run_e early K init ops).
Definition outputs_e (early K : nat) (ops : list op) : list out := snd (run_e early K init ops).

(* the history of the seeded regression's demo: a function (1 val, 2 ints, parameter = seed in slot 0) enters a block with
   one local, takes the address of its parameter from inside the block (upn = 1), leaves the block, returns;
   called twice; then both pointers are read *)
Definition mk_ptr (seed : Z) : list op := [OCall 0 1 2 [seed]; OBlock 0 1; OAddr 1 0; OBlockEnd; ORet []].
Definition alias_hist : list op := mk_ptr 30 ++ mk_ptr 3 ++ [OPGet 0; OPGet 1].

(* C06 — property theorems only: each closed by [exact lemma], followed by Print Assumptions.
   All theorems quantify over ARBITRARY operation histories [ops] (call / return / block enter / block exit /
   jump out of blocks / closure creation / &x / reads and writes through variables and pointers) and over every
   pool capacity K (gomacro: K = poolCapacity = 32). *)
From Coq Require Import List Arith ZArith Bool.
From Verif Require Import C06.Model C06.Proof C06.Proof2 C06.Proof3 C06.Proof4 C06.Proof5 C06.AddrModel C06.AddrProof.
Import ListNotations.

(* a frame marked UsedByClosure has a marked Outer: why MarkUsedByClosure may stop at the first marked frame *)
Theorem C06_marked_upward_closed : forall K ops f g, let st := exec K ops in
  f < nfr st -> f_used (getf st f) = true -> f_outer (getf st f) = Some g ->
  g < nfr st /\ f_used (getf st g) = true.
Proof. exact marked_upward_closed. Qed.
Print Assumptions C06_marked_upward_closed.

(* no frame sitting in the pool is reachable (through Outer) from an active frame or from a closure, its Ints
   array is not the target of any pointer ever created by &x, and it carries neither flag *)
Theorem C06_pool_unreachable : forall K ops f, let st := exec K ops in In f (pool st) ->
  ~ reach st f /\
  (forall p, In p (ptrs st) -> f_arr (getf st f) <> Some (fst p)) /\
  f_used (getf st f) = false /\ f_iat (getf st f) = false.
Proof. exact pool_unreachable. Qed.
Print Assumptions C06_pool_unreachable.

(* the whole structural invariant holds after every history (pool duplicate-free and disjoint from the active
   frames, call chains linked through Outer, arrays attached to one frame only, pointer targets flagged) *)
Theorem C06_heap_invariant : forall K ops, Inv1 (exec K ops) /\ stack (exec K ops) <> [].
Proof. exact inv1_exec. Qed.
Print Assumptions C06_heap_invariant.

(* captured variables keep their identity: a frame captured by a closure holds, after ANY later history ops'
   (any number of calls, returns, pool hits), the same activation (ghost serial number), the same Ints array,
   the same length and the same Outer, and stays marked: it is never handed to another call *)
Theorem C06_captured_value_stable_partial_frame : forall K ops ops' f,
  let st := exec K ops in let st' := exec K (ops ++ ops') in
  f < nfr st -> f_used (getf st f) = true ->
  same_var_frame (getf st' f) (getf st f) /\ f < nfr st' /\ f_used (getf st' f) = true.
Proof. exact captured_frame_stable. Qed.
Print Assumptions C06_captured_value_stable_partial_frame.

(* variables whose address was taken: the array a pointer points into stays owned by the activation that
   created the variable (it is never re-attached to a frame taken from the pool), and its content is changed by
   no later history that contains no explicit store (OSet / OPSet): in particular not by the argument copy-in of
   any later call *)
Theorem C06_captured_value_stable_partial_pointer : forall K ops ops' a i,
  let st := exec K ops in let st' := exec K (ops ++ ops') in
  In (a, i) (ptrs st) ->
  In (a, i) (ptrs st') /\ a_owner (geta st' a) = a_owner (geta st a) /\
  (Forall (fun o => match o with OSet _ _ _ | OPSet _ _ => False | _ => True end) ops' ->
   a_data (geta st' a) = a_data (geta st a)).
Proof. exact pointer_target_stable. Qed.
Print Assumptions C06_captured_value_stable_partial_pointer.
(* C06_captured_value_stable — the full statement, as a refinement.  The Go-spec machine [sstep] (Model.v) gives every
   call / block entry a FRESH activation with fresh variables and never recycles anything: there, a variable read
   through a closure (OGet with upn > 0 after calling the closure) or through a pointer (OPGet) trivially yields the
   last value written through any alias, however many calls intervene.  The frame machine [step K] — pool of capacity
   K, frames re-occupied without clearing, Ints arrays re-used, MarkUsedByClosure / IntAddressTaken deciding what may be
   recycled — produces, for EVERY operation history and EVERY pool capacity, outputs that refine the spec machine's:
   same shape at every step (a read is a read, an inapplicable operation is inapplicable in both), and wherever the
   spec value is defined (the variable was assigned in that activation) the frame machine returns exactly that value
   (where the spec value is undefined — a never-assigned variable — the frame machine may return the stale content of a
   recycled array, exactly as the Go code does before the compiler-emitted zeroing; see [val_refines]).
   Proved by the simulation relation [Sim] (Proof4.v): activation n <-> the live frame with ghost f_act = n; variable
   (n, slot) <-> cell slot of the array with ghost owner n; pooled frames correspond to nothing (Proof5.v: every
   operation preserves Sim, using the structural invariant Inv1). *)
Theorem C06_captured_value_stable : forall K ops, outs_refine (outputs K ops) (soutputs ops) = true.
Proof. exact outputs_refine. Qed.
Print Assumptions C06_captured_value_stable.

(* one step of the simulation, for any state satisfying the invariant: the relation is preserved and the outputs refine *)
Theorem C06_step_simulation : forall K st s o, Inv1 st -> stack st <> [] -> Sim st s ->
  Sim (fst (step K st o)) (fst (sstep s o)) /\ out_refines (snd (step K st o)) (snd (sstep s o)) = true.
Proof. exact step_sim. Qed.
Print Assumptions C06_step_simulation.

(* call protocol: arguments are in the parameter slots before the body runs; results are read before freeEnv *)
Theorem C06_call_protocol_results : forall K st rs call caller rest, stack st = call :: caller :: rest ->
  snd (step K st (ORet rs)) =
  RVals (map (fun r => match loc_of st (last_frame call) 0 r with Some l => rd st l | None => None end) rs).
Proof. exact call_protocol_results. Qed.
Print Assumptions C06_call_protocol_results.

(* ---------------- which frame gets IntAddressTaken (AddrModel.v; harness: address matrix kind x upn) ---------------- *)
(* [OAddr upn slot] = `&x` evaluated in the current frame, x owned by the frame upn Outer hops up.  A successful
   address-of yields a pointer into the Ints array of exactly that OWNING frame, sets IntAddressTaken on exactly that
   frame (its array stays attached), and changes no other frame, no array, neither the pool nor the stack. *)
Theorem C06_addr_flags_owning_frame : forall K st upn slot st',
  step K st (OAddr upn slot) = (st', RNone) ->
  exists g a, owner_of st upn = Some g /\ g < nfr st /\ f_arr (getf st g) = Some a /\
              ptrs st' = ptrs st ++ [(a, slot)] /\
              f_arr (getf st' g) = Some a /\ f_iat (getf st' g) = true /\
              (forall f, f <> g -> getf st' f = getf st f) /\
              arrs st' = arrs st /\ pool st' = pool st /\ stack st' = stack st.
Proof. exact addr_flags_owner. Qed.
Print Assumptions C06_addr_flags_owning_frame.

(* after EVERY history: the frame whose Ints array a pointer targets is flagged (freeEnv will detach the array instead
   of recycling it) and no other frame shares that array *)
Theorem C06_pointer_owner_flagged : forall K ops a i f, let st := exec K ops in
  In (a, i) (ptrs st) -> f < nfr st -> f_arr (getf st f) = Some a ->
  f_iat (getf st f) = true /\ forall g, g < nfr st -> f_arr (getf st g) = Some a -> g = f.
Proof. exact pointer_owner_flagged. Qed.
Print Assumptions C06_pointer_owner_flagged.

(* the operation with the position of the flag assignment inside the Outer walk as a parameter: Model.v's OAddr is
   "flag after the whole walk" (early = 0), and the refinement theorem holds for that machine *)
Theorem C06_addr_op_flags_after_walk : forall K st upn slot, step K st (OAddr upn slot) = addr_of_int 0 st upn slot.
Proof. exact addr_of_int_0. Qed.
Print Assumptions C06_addr_op_flags_after_walk.

Theorem C06_captured_value_stable_upn : forall K ops, outs_refine (outputs_e 0 K ops) (soutputs ops) = true.
Proof. exact outputs_e_refine. Qed.
Print Assumptions C06_captured_value_stable_upn.

(* flag set one hop early (`env.IntAddressTaken = true` before `env = env.Outer`, the seeded regression
   C08-addr-flag-uint32-outer): on the demo's history (function, block with a local, &param from inside the block,
   called twice) the two pointers are the SAME location and the outputs do not refine the Go-spec machine *)
Theorem C06_addr_flag_one_hop_early_refuted :
  outs_refine (outputs_e 1 poolCapacity alias_hist) (soutputs alias_hist) = false /\
  outputs_e 1 poolCapacity alias_hist <> outputs_e 0 poolCapacity alias_hist /\
  nth_error (ptrs (exec_e 1 poolCapacity alias_hist)) 0 = nth_error (ptrs (exec_e 1 poolCapacity alias_hist)) 1 /\
  nth_error (ptrs (exec_e 0 poolCapacity alias_hist)) 0 <> nth_error (ptrs (exec_e 0 poolCapacity alias_hist)) 1.
Proof. exact early_flag_refuted. Qed.
Print Assumptions C06_addr_flag_one_hop_early_refuted.

(* ---------------- non-vacuity and executable checks ---------------- *)
(* a counter: call #0 (nv=0, ni=2), x := 5 in slot 1, closure over the frame, &x, return; then 40 unrelated calls
   churn the pool; then the closure is called and reads x through Outer, the pointer reads x *)
Definition churn (n : nat) : list op := concat (repeat [OCall 0 0 3 [7%Z; 8%Z; 9%Z]; OSet 0 2 1%Z; ORet [0]] n).
Definition ex_hist : list op :=
  [OCall 0 0 2 [3%Z]; OSet 0 1 5%Z; OClosure; OAddr 0 1; ORet [1]] ++ churn 40 ++
  [OCall 1 0 1 []; OGet 1 1; OSet 1 1 6%Z; ORet []; OPGet 0].

Example C06_ex_values : filter (fun o => match o with RVal _ => true | _ => false end) (outputs poolCapacity ex_hist)
  = [RVal (Some 5%Z); RVal (Some 6%Z)].
Proof. vm_compute. reflexivity. Qed.
(* (now an instance of C06_captured_value_stable; kept as an executable check of the definitions) *)
Example C06_ex_refines : outs_refine (outputs poolCapacity ex_hist) (soutputs ex_hist) = true
  /\ outs_refine (outputs 1 ex_hist) (soutputs ex_hist) = true.
Proof. vm_compute. split; reflexivity. Qed.
(* the pool really recycles in this history: frame 2 is captured, every churn call reuses frame 3 *)
Example C06_ex_recycles : length (frames (exec poolCapacity ex_hist)) = 4 /\ pool (exec poolCapacity ex_hist) = [3].
Proof. vm_compute. split; reflexivity. Qed.
Example C06_ex_captured : f_used (getf (exec poolCapacity ex_hist) 2) = true /\ f_iat (getf (exec poolCapacity ex_hist) 2) = true.
Proof. vm_compute. split; reflexivity. Qed.
(* without the UsedByClosure test (a frame freed although captured) the same history would hand frame 2 to the
   churn calls: the model of the seeded mutation reads 9 instead of 5 — shown on the spec side by the refinement
   failing is left to the mutation self-test of the harness *)
(* the address-matrix shape: the pointers of two successive calls are distinct locations, each reads its own seed *)
Example C06_ex_alias_hist : filter (fun o => match o with RVal _ => true | _ => false end) (outputs poolCapacity alias_hist)
  = [RVal (Some 30%Z); RVal (Some 3%Z)].
Proof. vm_compute. reflexivity. Qed.

(* C06 — lemmas about address-of and the frame that gets IntAddressTaken (see AddrModel.v) *)
From Coq Require Import List Arith ZArith Bool Lia.
From Verif Require Import C06.Model C06.Proof C06.Proof2 C06.Proof5 C06.AddrModel.
Import ListNotations.

(* Model.v's OAddr is the parametrised operation with the flag set after the whole walk *)
Lemma addr_of_int_0 K st upn slot : step K st (OAddr upn slot) = addr_of_int 0 st upn slot.
Proof. unfold addr_of_int. rewrite Nat.sub_0_r. reflexivity. Qed.

Lemma step_e_0 K st o : step_e 0 K st o = step K st o.
Proof. destruct o; try reflexivity. simpl. symmetry. apply (addr_of_int_0 K). Qed.

Lemma run_e_0 K ops : forall st, run_e 0 K st ops = run K st ops.
Proof.
  induction ops as [|o ops IH]; intros st; simpl; auto.
  rewrite step_e_0. destruct (step K st o) as [st1 r]. rewrite IH. reflexivity.
Qed.

Lemma outputs_e_0 K ops : outputs_e 0 K ops = outputs K ops.
Proof. unfold outputs_e, outputs. rewrite run_e_0. reflexivity. Qed.

Lemma exec_e_0 K ops : exec_e 0 K ops = exec K ops.
Proof. unfold exec_e, exec. rewrite run_e_0. reflexivity. Qed.

Lemma getf_set_ptrs st p f : getf (set_ptrs st p) f = getf st f.
Proof. reflexivity. Qed.

Lemma getf_overflow st g : nfr st <= g -> getf st g = dframe.
Proof. intros H. unfold getf, nfr in *. apply nth_overflow. exact H. Qed.

(* one step: whatever the state, a successful &x (x = variable (upn, slot) seen from the current frame)
   - yields a pointer (a, slot) where a is the Ints array of the frame g reached by upn Outer hops (the OWNER),
   - leaves that frame with IntAddressTaken set and its array attached,
   - changes no other frame, no array, not the pool, not the stack. *)
Lemma addr_flags_owner K st upn slot st' :
  step K st (OAddr upn slot) = (st', RNone) ->
  exists g a, owner_of st upn = Some g /\ g < nfr st /\ f_arr (getf st g) = Some a /\
              ptrs st' = ptrs st ++ [(a, slot)] /\
              f_arr (getf st' g) = Some a /\ f_iat (getf st' g) = true /\
              (forall f, f <> g -> getf st' f = getf st f) /\
              arrs st' = arrs st /\ pool st' = pool st /\ stack st' = stack st.
Proof.
  unfold step, owner_of. destruct (up (frames st) upn (cur st)) as [g|] eqn:U; [|intros H; inversion H].
  unfold loc_of. rewrite U.
  destruct (slot <? f_nints (getf st g)) eqn:S; [|intros H; inversion H].
  destruct (f_arr (getf st g)) as [a|] eqn:A; [|intros H; inversion H].
  intros H. inversion H; subst st'; clear H.
  assert (Lt : g < nfr st).
  { destruct (Nat.lt_ge_cases g (nfr st)) as [L|L]; auto.
    rewrite (getf_overflow st g L) in S. simpl in S. apply Nat.ltb_lt in S. lia. }
  exists g, a. repeat split; auto.
  - rewrite getf_set_ptrs, getf_setf_eq by exact Lt. simpl. first [exact A | reflexivity].
  - rewrite getf_set_ptrs, getf_setf_eq by exact Lt. reflexivity.
  - intros f N. rewrite getf_set_ptrs. apply getf_setf_neq. auto.
Qed.

(* all histories: the frame whose Ints array a pointer targets carries IntAddressTaken (so freeEnv detaches the array
   instead of recycling it), and is the only frame the array is attached to *)
Lemma pointer_owner_flagged K ops a i f : let st := exec K ops in
  In (a, i) (ptrs st) -> f < nfr st -> f_arr (getf st f) = Some a ->
  f_iat (getf st f) = true /\ forall g, g < nfr st -> f_arr (getf st g) = Some a -> g = f.
Proof.
  intros st P Lt A. destruct (inv1_exec K ops) as (I & _). fold st in I. split.
  - destruct (i_ptr _ I a i P) as (_ & H). apply H; auto.
  - intros g Lg Ag. apply (i_arr_inj _ I g f a); auto.
Qed.

(* the refinement theorem, restated for the machine with the explicit upn / flag-position parameter *)
Lemma outputs_e_refine K ops : outs_refine (outputs_e 0 K ops) (soutputs ops) = true.
Proof. rewrite outputs_e_0. apply outputs_refine. Qed.

(* flag set one hop early (the seeded regression): the second call re-occupies the first call's frame together with
   its Ints array, so the first pointer reads the second call's parameter *)
Lemma early_flag_refuted :
  outs_refine (outputs_e 1 poolCapacity alias_hist) (soutputs alias_hist) = false /\
  outputs_e 1 poolCapacity alias_hist <> outputs_e 0 poolCapacity alias_hist /\
  nth_error (ptrs (exec_e 1 poolCapacity alias_hist)) 0 = nth_error (ptrs (exec_e 1 poolCapacity alias_hist)) 1 /\
  nth_error (ptrs (exec_e 0 poolCapacity alias_hist)) 0 <> nth_error (ptrs (exec_e 0 poolCapacity alias_hist)) 1.
Proof. vm_compute. repeat split; try reflexivity; intros H; discriminate H. Qed.

(* C06 — executable model of gomacro's runtime frames (fast/compile.go: newEnv / NewEnv / newEnv4Func,
   MarkUsedByClosure, FreeEnv / freeEnv4Func / freeEnv; fast/global.go: Env, Run.Pool, poolCapacity;
   fast/address.go: Var.Address setting IntAddressTaken; fast/function.go: funcGeneric's call protocol).
   Definitions only (no proofs).

   Two machines run the same operation histories:
     * [step K]  — what the code does, with a frame pool of capacity K (gomacro: K = 32);
     * [sstep]   — the Go-spec side: every call / block entry creates a fresh activation whose int
                   variables are fresh, nothing is ever recycled (activation = serial number).
   The theorems (Proof.v / Props.v) relate the two for ALL histories and all K.

   Ghost fields (not in the Go code, written only, never read by the machine's decisions):
   [f_act] (serial number of the activation occupying a frame), [a_owner] (activation owning an
   Ints array), [nact]. *)
From Coq Require Import List Arith ZArith Bool.
Import ListNotations.

Definition poolCapacity : nat := 32.

(* ---------- heap ---------- *)
Record frame := mkFrame {
  f_outer : option nat;   (* Env.Outer *)
  f_used  : bool;         (* Env.UsedByClosure *)
  f_iat   : bool;         (* Env.IntAddressTaken *)
  f_arr   : option nat;   (* identity of the backing array of Env.Ints; None = nil slice *)
  f_nints : nat;          (* len(Env.Ints) *)
  f_nvals : nat;          (* len(Env.Vals) *)
  f_vcap  : nat;          (* cap(Env.Vals): Vals entries are references to cells outside the frame *)
  f_act   : nat           (* ghost *)
}.

Record arr := mkArr { a_owner : nat (* ghost *); a_data : list Z (* cap = length *) }.

Record state := mkState {
  frames : list frame;          (* every Env ever allocated, by identity *)
  arrs   : list arr;            (* every Ints backing array ever allocated *)
  pool   : list nat;            (* Run.Pool[0:PoolSize], head = Pool[PoolSize-1] *)
  stack  : list (list nat);     (* active calls, innermost first; a call = its block frames
                                   (innermost first) followed by the function frame *)
  clos   : list nat;            (* every closure created so far: the Env it was closed over *)
  ptrs   : list (nat * nat);    (* every *int created by &x so far: (array, index) *)
  nact   : nat                  (* ghost: number of activations so far *)
}.

Definition dframe : frame := mkFrame None false false None 0 0 0 0.
Definition darr : arr := mkArr 0 [].

Fixpoint upd {A} (l : list A) (i : nat) (x : A) : list A :=
  match l, i with
  | [], _ => []
  | _ :: l', O => x :: l'
  | y :: l', S i' => y :: upd l' i' x
  end.

Definition getf (st : state) (f : nat) : frame := nth f (frames st) dframe.
Definition geta (st : state) (a : nat) : arr := nth a (arrs st) darr.

Definition set_frames (st : state) fs := mkState fs (arrs st) (pool st) (stack st) (clos st) (ptrs st) (nact st).
Definition set_arrs (st : state) ar := mkState (frames st) ar (pool st) (stack st) (clos st) (ptrs st) (nact st).
Definition set_pool (st : state) p := mkState (frames st) (arrs st) p (stack st) (clos st) (ptrs st) (nact st).
Definition set_stack (st : state) s := mkState (frames st) (arrs st) (pool st) s (clos st) (ptrs st) (nact st).
Definition set_clos (st : state) c := mkState (frames st) (arrs st) (pool st) (stack st) c (ptrs st) (nact st).
Definition set_ptrs (st : state) p := mkState (frames st) (arrs st) (pool st) (stack st) (clos st) p (nact st).
Definition set_nact (st : state) n := mkState (frames st) (arrs st) (pool st) (stack st) (clos st) (ptrs st) n.

Definition setf (st : state) (f : nat) (fr : frame) : state := set_frames st (upd (frames st) f fr).

(* interpreter start: top Env (frame 0) and file Env (frame 1), both UsedByClosure (interpreter.go:44,46);
   the evaluation in progress is the pseudo-call [1]; top-level functions are closures over frame 1 *)
Definition init : state :=
  mkState [mkFrame None true false None 0 0 0 0; mkFrame (Some 0) true false None 0 0 0 1]
          [] [] [[1]] [1] [] 2.

(* ---------- newEnv (common part of NewEnv and newEnv4Func) ---------- *)
Definition arr_cap (st : state) (o : option nat) : nat :=
  match o with Some a => length (a_data (geta st a)) | None => 0 end.

(* the frame that will be occupied: popped from the pool, or a new &Env{} *)
Definition take (st : state) : state * nat :=
  match pool st with
  | f :: p => (set_pool st p, f)
  | [] => (set_frames st (frames st ++ [dframe]), length (frames st))
  end.

Definition new_env (st : state) (outer nv ni : nat) : state * nat :=
  let '(st1, f) := take st in
  let fr := getf st1 f in
  (* if cap(env.Vals) >= nbind { env.Vals = env.Vals[0:nbind] } else { make } : entries NOT cleared *)
  let vcap := if nv <=? f_vcap fr then f_vcap fr else nv in
  (* if cap(env.Ints) >= nintbind { env.Ints = env.Ints[0:nintbind] } else { make } : NOT cleared *)
  let '(st2, ar) :=
    if ni <=? arr_cap st1 (f_arr fr)
    then (match f_arr fr with
          | Some a => set_arrs st1 (upd (arrs st1) a (mkArr (nact st1) (a_data (geta st1 a))))
          | None => st1
          end, f_arr fr)
    else (set_arrs st1 (arrs st1 ++ [mkArr (nact st1) (repeat 0%Z ni)]), Some (length (arrs st1))) in
  let fr' := mkFrame (Some outer) (f_used fr) (f_iat fr) ar ni nv vcap (nact st2) in
  (set_nact (setf st2 f fr') (S (nact st2)), f).

(* ---------- freeEnv ---------- *)
Definition free_env (K : nat) (st : state) (f : nat) : state :=
  let fr := getf st f in
  if f_used fr then st
  else if K <=? length (pool st) then st
  else
    let fr' := if f_iat fr
               then mkFrame None false false None 0 (f_nvals fr) (f_vcap fr) (f_act fr)   (* Ints = nil *)
               else mkFrame None false false (f_arr fr) (f_nints fr) (f_nvals fr) (f_vcap fr) (f_act fr) in
    set_pool (setf st f fr') (f :: pool st).

(* ---------- MarkUsedByClosure: for ; env != nil && !env.UsedByClosure; env = env.Outer ---------- *)
Fixpoint mark (fuel : nat) (fs : list frame) (o : option nat) : list frame :=
  match fuel, o with
  | S n, Some f =>
      let fr := nth f fs dframe in
      if f_used fr then fs
      else mark n (upd fs f (mkFrame (f_outer fr) true (f_iat fr) (f_arr fr) (f_nints fr) (f_nvals fr) (f_vcap fr) (f_act fr)))
                (f_outer fr)
  | _, _ => fs
  end.

(* ---------- variable access ---------- *)
Fixpoint up (fs : list frame) (n : nat) (f : nat) : option nat :=
  match n with
  | O => Some f
  | S n' => match f_outer (nth f fs dframe) with Some g => up fs n' g | None => None end
  end.

Definition cur_call (st : state) : list nat := hd [] (stack st).
Definition cur (st : state) : nat := hd 0 (cur_call st).

(* location of the int variable (upn, slot) seen from frame f: (array, index) *)
Definition loc_of (st : state) (f upn slot : nat) : option (nat * nat) :=
  match up (frames st) upn f with
  | Some g => let fr := getf st g in
              if slot <? f_nints fr then match f_arr fr with Some a => Some (a, slot) | None => None end else None
  | None => None
  end.

Definition rd (st : state) (l : nat * nat) : option Z := nth_error (a_data (geta st (fst l))) (snd l).
Definition wr (st : state) (l : nat * nat) (v : Z) : state :=
  let a := geta st (fst l) in
  set_arrs st (upd (arrs st) (fst l) (mkArr (a_owner a) (upd (a_data a) (snd l) v))).

Fixpoint write_args (st : state) (f : nat) (i : nat) (args : list Z) : state :=
  match args with
  | [] => st
  | v :: args' =>
      let st' := match loc_of st f 0 i with Some l => wr st l v | None => st end in
      write_args st' f (S i) args'
  end.

(* ---------- operations ---------- *)
Inductive op :=
| OCall (c nv ni : nat) (args : list Z)  (* call closure #c: newEnv4Func(env of c), copy arguments into int slots 0.. *)
| ORet (rs : list nat)                   (* read the result slots of the function frame, then freeEnv4Func *)
| OBlock (nv ni : nat)                   (* NewEnv(current) *)
| OBlockEnd                              (* popEnv: FreeEnv(current) *)
| OLeave (k : nat)                       (* break/continue/goto across k block frames: no FreeEnv *)
| OClosure                               (* a function literal/declaration is evaluated in the current frame *)
| OAddr (upn slot : nat)                 (* &x, x an int-slot variable: IntAddressTaken, pointer into Ints *)
| OSet (upn slot : nat) (v : Z)
| OGet (upn slot : nat)
| OPSet (p : nat) (v : Z)                (* *p = v for the p-th pointer created *)
| OPGet (p : nat).

Inductive out :=
| RNone                       (* nothing to observe *)
| RVal (v : option Z)         (* a read; None = the location does not exist / was never written *)
| RVals (vs : list (option Z))
| RBad.                       (* operation not applicable in this state (never for compiled Go programs) *)

Definition last_frame (call : list nat) : nat := last call 0.

Definition step (K : nat) (st : state) (o : op) : state * out :=
  match o with
  | OCall c nv ni args =>
      match nth_error (clos st) c with
      | None => (st, RBad)
      | Some outer =>
          let '(st1, f) := new_env st outer nv ni in
          let st2 := write_args st1 f 0 args in
          (set_stack st2 ([f] :: stack st2), RNone)
      end
  | ORet rs =>
      match stack st with
      | call :: (caller :: rest) =>
          let f := last_frame call in
          let vs := map (fun r => match loc_of st f 0 r with Some l => rd st l | None => None end) rs in
          let st1 := free_env K st f in
          (set_stack st1 (caller :: rest), RVals vs)
      | _ => (st, RBad)
      end
  | OBlock nv ni =>
      match stack st with
      | call :: rest =>
          let '(st1, f) := new_env st (cur st) nv ni in
          (set_stack st1 ((f :: call) :: rest), RNone)
      | [] => (st, RBad)
      end
  | OBlockEnd =>
      match stack st with
      | (b :: (g :: call')) :: rest =>
          let st1 := free_env K st b in
          (set_stack st1 ((g :: call') :: rest), RNone)
      | _ => (st, RBad)
      end
  | OLeave k =>
      match stack st with
      | call :: rest =>
          if k <? length call then (set_stack st (skipn k call :: rest), RNone) else (st, RBad)
      | [] => (st, RBad)
      end
  | OClosure =>
      let f := cur st in
      (set_clos (set_frames st (mark (length (frames st)) (frames st) (Some f))) (clos st ++ [f]), RNone)
  | OAddr upn slot =>
      match up (frames st) upn (cur st), loc_of st (cur st) upn slot with
      | Some g, Some l =>
          let fr := getf st g in
          let fr' := mkFrame (f_outer fr) (f_used fr) true (f_arr fr) (f_nints fr) (f_nvals fr) (f_vcap fr) (f_act fr) in
          (set_ptrs (setf st g fr') (ptrs st ++ [l]), RNone)
      | _, _ => (st, RBad)
      end
  | OSet upn slot v =>
      match loc_of st (cur st) upn slot with
      | Some l => (wr st l v, RNone)
      | None => (st, RBad)
      end
  | OGet upn slot =>
      match loc_of st (cur st) upn slot with
      | Some l => (st, RVal (rd st l))
      | None => (st, RBad)
      end
  | OPSet p v =>
      match nth_error (ptrs st) p with
      | Some l => (wr st l v, RNone)
      | None => (st, RBad)
      end
  | OPGet p =>
      match nth_error (ptrs st) p with
      | Some l => (st, RVal (rd st l))
      | None => (st, RBad)
      end
  end.

Fixpoint run (K : nat) (st : state) (ops : list op) : state * list out :=
  match ops with
  | [] => (st, [])
  | o :: ops' => let '(st1, r) := step K st o in let '(st2, rs) := run K st1 ops' in (st2, r :: rs)
  end.

Definition exec (K : nat) (ops : list op) : state := fst (run K init ops).
Definition outputs (K : nat) (ops : list op) : list out := snd (run K init ops).

(* ======================= the Go-spec machine: activations, no frames, no recycling ======================= *)
Record sstate := mkS {
  s_outer : list (option nat);        (* activation -> enclosing activation *)
  s_nints : list nat;                 (* activation -> number of int variables *)
  s_store : list ((nat * nat) * Z);   (* (activation, slot) -> value, most recent binding first *)
  s_stack : list (list nat);
  s_clos  : list nat;                 (* closure -> activation it captured *)
  s_ptrs  : list (nat * nat)          (* pointer -> (activation, slot) *)
}.

Definition sinit : sstate := mkS [None; Some 0] [0; 0] [] [[1]] [1] [].

Fixpoint slookup (s : list ((nat * nat) * Z)) (k : nat * nat) : option Z :=
  match s with
  | [] => None
  | ((a, i), v) :: s' => if (a =? fst k) && (i =? snd k) then Some v else slookup s' k
  end.

Fixpoint sup (outer : list (option nat)) (n : nat) (a : nat) : option nat :=
  match n with
  | O => Some a
  | S n' => match nth a outer None with Some b => sup outer n' b | None => None end
  end.

Definition s_cur (s : sstate) : nat := hd 0 (hd [] (s_stack s)).

Definition svar (s : sstate) (a upn slot : nat) : option (nat * nat) :=
  match sup (s_outer s) upn a with
  | Some b => if slot <? nth b (s_nints s) 0 then Some (b, slot) else None
  | None => None
  end.

Definition swr (s : sstate) (k : nat * nat) (v : Z) : sstate :=
  mkS (s_outer s) (s_nints s) ((k, v) :: s_store s) (s_stack s) (s_clos s) (s_ptrs s).
Definition s_set_stack (s : sstate) st := mkS (s_outer s) (s_nints s) (s_store s) st (s_clos s) (s_ptrs s).

Definition snew (s : sstate) (outer ni : nat) : sstate * nat :=
  (mkS (s_outer s ++ [Some outer]) (s_nints s ++ [ni]) (s_store s) (s_stack s) (s_clos s) (s_ptrs s),
   length (s_outer s)).

Fixpoint swrite_args (s : sstate) (a : nat) (i : nat) (args : list Z) : sstate :=
  match args with
  | [] => s
  | v :: args' =>
      let s' := match svar s a 0 i with Some k => swr s k v | None => s end in
      swrite_args s' a (S i) args'
  end.

Definition sstep (s : sstate) (o : op) : sstate * out :=
  match o with
  | OCall c nv ni args =>
      match nth_error (s_clos s) c with
      | None => (s, RBad)
      | Some outer =>
          let '(s1, a) := snew s outer ni in
          let s2 := swrite_args s1 a 0 args in
          (s_set_stack s2 ([a] :: s_stack s2), RNone)
      end
  | ORet rs =>
      match s_stack s with
      | call :: (caller :: rest) =>
          let a := last call 0 in
          let vs := map (fun r => match svar s a 0 r with Some k => slookup (s_store s) k | None => None end) rs in
          (s_set_stack s (caller :: rest), RVals vs)
      | _ => (s, RBad)
      end
  | OBlock nv ni =>
      match s_stack s with
      | call :: rest =>
          let '(s1, a) := snew s (s_cur s) ni in
          (s_set_stack s1 ((a :: call) :: rest), RNone)
      | [] => (s, RBad)
      end
  | OBlockEnd =>
      match s_stack s with
      | (b :: (g :: call')) :: rest => (s_set_stack s ((g :: call') :: rest), RNone)
      | _ => (s, RBad)
      end
  | OLeave k =>
      match s_stack s with
      | call :: rest =>
          if k <? length call then (s_set_stack s (skipn k call :: rest), RNone) else (s, RBad)
      | [] => (s, RBad)
      end
  | OClosure =>
      (mkS (s_outer s) (s_nints s) (s_store s) (s_stack s) (s_clos s ++ [s_cur s]) (s_ptrs s), RNone)
  | OAddr upn slot =>
      match svar s (s_cur s) upn slot with
      | Some k => (mkS (s_outer s) (s_nints s) (s_store s) (s_stack s) (s_clos s) (s_ptrs s ++ [k]), RNone)
      | None => (s, RBad)
      end
  | OSet upn slot v =>
      match svar s (s_cur s) upn slot with
      | Some k => (swr s k v, RNone)
      | None => (s, RBad)
      end
  | OGet upn slot =>
      match svar s (s_cur s) upn slot with
      | Some k => (s, RVal (slookup (s_store s) k))
      | None => (s, RBad)
      end
  | OPSet p v =>
      match nth_error (s_ptrs s) p with
      | Some k => (swr s k v, RNone)
      | None => (s, RBad)
      end
  | OPGet p =>
      match nth_error (s_ptrs s) p with
      | Some k => (s, RVal (slookup (s_store s) k))
      | None => (s, RBad)
      end
  end.

Fixpoint srun (s : sstate) (ops : list op) : sstate * list out :=
  match ops with
  | [] => (s, [])
  | o :: ops' => let '(s1, r) := sstep s o in let '(s2, rs) := srun s1 ops' in (s2, r :: rs)
  end.

Definition soutputs (ops : list op) : list out := snd (srun sinit ops).

(* an implementation output refines a spec output: same shape, and wherever the spec value is defined
   (the variable was assigned in that activation) the implementation returns exactly it *)
Definition val_refines (i s : option Z) : bool :=
  match s with
  | None => true
  | Some v => match i with Some w => Z.eqb v w | None => false end
  end.
Fixpoint vals_refine (i s : list (option Z)) : bool :=
  match i, s with
  | [], [] => true
  | x :: i', y :: s' => val_refines x y && vals_refine i' s'
  | _, _ => false
  end.
Definition out_refines (i s : out) : bool :=
  match i, s with
  | RNone, RNone => true
  | RVal x, RVal y => val_refines x y
  | RVals x, RVals y => vals_refine x y
  | RBad, RBad => true
  | _, _ => false
  end.
Fixpoint outs_refine (i s : list out) : bool :=
  match i, s with
  | [], [] => true
  | x :: i', y :: s' => out_refines x y && outs_refine i' s'
  | _, _ => false
  end.

(* ======================= correspondence with the real interpreter ======================= *)
(* The harness instruments generated programs with probes; between probes it knows which frame
   operations gomacro performed.  A case is the item list of one program run, starting from an empty
   pool: operations interleaved with what the probes saw.  Frame identities are numbered by the
   harness in order of first appearance (= allocation order, every frame is probed at creation). *)
Inductive item :=
| IOp (o : op)
| ICallEnv (g nv ni : nat)      (* a call whose new frame has Outer = frame g: closure resolved by the model *)
| IPool (size : nat) (top : option nat)                  (* probe: Run.PoolSize, Run.Pool[PoolSize-1] *)
| IFrame (f : nat) (outer : option nat) (nv ni : nat).   (* probe right after a frame was (re)occupied:
                                                            identity, Outer, len(Vals), len(Ints) *)

Fixpoint find_idx (l : list nat) (g : nat) (i : nat) : option nat :=
  match l with
  | [] => None
  | x :: l' => if x =? g then Some i else find_idx l' g (S i)
  end.

Definition opt_eqb (a b : option nat) : bool :=
  match a, b with
  | None, None => true
  | Some x, Some y => x =? y
  | _, _ => false
  end.

(* final dump of one frame: UsedByClosure, IntAddressTaken, cap(Ints), cap(Vals), Outer, in pool *)
Record fdump := mkDump { d_used : bool; d_iat : bool; d_icap : nat; d_vcap : nat; d_outer : option nat; d_pooled : bool }.

Definition dump_frame (st : state) (f : nat) : fdump :=
  let fr := getf st f in
  mkDump (f_used fr) (f_iat fr) (arr_cap st (f_arr fr)) (f_vcap fr) (f_outer fr) (existsb (Nat.eqb f) (pool st)).

Definition dump_eqb (a b : fdump) : bool :=
  Bool.eqb (d_used a) (d_used b) && Bool.eqb (d_iat a) (d_iat b) && (d_icap a =? d_icap b) &&
  (d_vcap a =? d_vcap b) && opt_eqb (d_outer a) (d_outer b) && Bool.eqb (d_pooled a) (d_pooled b).

Fixpoint dumps_ok (st : state) (f : nat) (ds : list fdump) : bool :=
  match ds with
  | [] => true
  | d :: ds' => dump_eqb (dump_frame st f) d && dumps_ok st (S f) ds'
  end.

(* returns the index of the first item that disagrees, or None *)
Fixpoint replay (K : nat) (st : state) (its : list item) (i : nat) : state * option nat :=
  match its with
  | [] => (st, None)
  | it :: its' =>
      match it with
      | IOp o =>
          match step K st o with
          | (_, RBad) => (st, Some i)
          | (st', _) => replay K st' its' (S i)
          end
      | ICallEnv g nv ni =>
          match find_idx (clos st) g 0 with
          | None => (st, Some i)
          | Some c => replay K (fst (step K st (OCall c nv ni []))) its' (S i)
          end
      | IPool size top =>
          if (length (pool st) =? size) && opt_eqb (hd_error (pool st)) top
          then replay K st its' (S i) else (st, Some i)
      | IFrame f outer nv ni =>
          let fr := getf st (cur st) in
          if (cur st =? f) && opt_eqb (f_outer fr) outer && (f_nvals fr =? nv) && (f_nints fr =? ni)
          then replay K st its' (S i) else (st, Some i)
      end
  end.

(* frame ids in a case are shifted by 2: the harness numbers the file Env 1 and the top Env 0 as the model does *)
Inductive case :=
| mkCase (c_idx : Z) (c_items : list item) (c_dump : list fdump (* frames 2.. *)) (c_nframes : nat)
| mkHist (c_idx : Z) (K : nat) (ops : list op).   (* synthetic history: frame machine (capacity K and 32) vs Go-spec machine *)

Definition c_idx (c : case) : Z := match c with mkCase i _ _ _ => i | mkHist i _ _ => i end.

Definition case_ok (c : case) : bool :=
  match c with
  | mkCase _ items dump nframes =>
      match replay poolCapacity init items 0 with
      | (st, None) => dumps_ok st 2 dump && (length (frames st) =? nframes)
      | (_, Some _) => false
      end
  | mkHist _ K ops =>
      outs_refine (outputs K ops) (soutputs ops) && outs_refine (outputs poolCapacity ops) (soutputs ops)
  end.

Definition mismatches (cs : list case) : list Z :=
  map c_idx (filter (fun c => negb (case_ok c)) cs).

(* where a case first disagrees (debugging aid) *)
Definition first_bad (c : case) : option nat :=
  match c with mkCase _ items _ _ => snd (replay poolCapacity init items 0) | mkHist _ _ _ => None end.

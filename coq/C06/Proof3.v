(* C06 — a captured frame and a pointer target keep their identity and their content across every later history. *)
From Coq Require Import List Arith ZArith Bool Lia.
From Verif Require Import C06.Model C06.Proof C06.Proof2.
Import ListNotations.

Definition same_var_frame (a b : frame) : Prop :=
  f_act a = f_act b /\ f_arr a = f_arr b /\ f_nints a = f_nints b /\ f_outer a = f_outer b.

Lemma mark_frame fuel : forall fs o g,
  nth g (mark fuel fs o) dframe = nth g fs dframe \/ nth g (mark fuel fs o) dframe = set_used (nth g fs dframe).
Proof.
  induction fuel as [|n IH]; intros fs o g; [left; reflexivity|].
  destruct o as [f|]; [|left; reflexivity]. rewrite mark_S.
  destruct (f_used (nth f fs dframe)); [left; reflexivity|].
  destruct (IH (upd fs f (set_used (nth f fs dframe))) (f_outer (nth f fs dframe)) g) as [H|H]; rewrite H.
  - destruct (Nat.eq_dec f g) as [->|N].
    + destruct (lt_dec g (length fs)); [right; apply nth_upd_eq; auto|].
      left. rewrite !nth_overflow; auto; try rewrite upd_length; lia.
    + left. apply nth_upd_neq; auto.
  - destruct (Nat.eq_dec f g) as [->|N].
    + destruct (lt_dec g (length fs)); [right; rewrite nth_upd_eq by auto; reflexivity|].
      right. rewrite !nth_overflow; auto; try rewrite upd_length; lia.
    + right. rewrite nth_upd_neq by auto. reflexivity.
Qed.

Lemma mark_length fuel : forall fs o, length (mark fuel fs o) = length fs.
Proof.
  induction fuel as [|n IH]; intros fs o; [reflexivity|]. destruct o as [f|]; [|reflexivity]. rewrite mark_S.
  destruct (f_used (nth f fs dframe)); auto. rewrite IH. apply upd_length.
Qed.

Lemma free_env_used K st x f : used st f -> getf (free_env K st x) f = getf st f.
Proof.
  intros U. unfold free_env. destruct (f_used (getf st x)) eqn:Ux; auto.
  destruct (K <=? length (pool st)); auto.
  assert (x <> f) by (intros ->; unfold used in U; congruence).
  unfold getf; simpl. apply nth_upd_neq; auto.
Qed.
Lemma free_env_nfr K st x : nfr (free_env K st x) = nfr st.
Proof.
  unfold free_env. destruct (f_used (getf st x)); auto. destruct (K <=? length (pool st)); auto.
  unfold nfr; simpl. apply upd_length.
Qed.
Lemma free_env_arrs K st x : arrs (free_env K st x) = arrs st.
Proof. unfold free_env. destruct (f_used (getf st x)); auto. destruct (K <=? length (pool st)); auto. Qed.
Lemma free_env_ptrs K st x : ptrs (free_env K st x) = ptrs st.
Proof. unfold free_env. destruct (f_used (getf st x)); auto. destruct (K <=? length (pool st)); auto. Qed.

Lemma write_args_getf args : forall st f i g, getf (write_args st f i args) g = getf st g.
Proof. intros. unfold getf. rewrite write_args_frames. reflexivity. Qed.
Lemma write_args_ptrs args : forall st f i, ptrs (write_args st f i args) = ptrs st.
Proof. induction args as [|v args IH]; intros; simpl; auto. rewrite IH. destruct (loc_of st f 0 i); reflexivity. Qed.
Lemma write_args_owner args : forall st f i a, a_owner (geta (write_args st f i args) a) = a_owner (geta st a).
Proof.
  induction args as [|v args IH]; intros; simpl; auto. rewrite IH. destruct (loc_of st f 0 i); auto. apply wr_owner.
Qed.
Lemma write_args_data args : forall st f i a, f_arr (getf st f) <> Some a ->
  a_data (geta (write_args st f i args) a) = a_data (geta st a).
Proof.
  induction args as [|v args IH]; intros st f i a N; simpl; auto.
  destruct (loc_of st f 0 i) as [[b j]|] eqn:L; [|apply IH; auto].
  rewrite IH by (rewrite wr_getf; auto).
  destruct (loc_of_arr _ _ _ _ _ _ L) as (g & U & A & _ & _). simpl in U. inversion U; subst g.
  rewrite wr_geta_neq; auto. intros ->. congruence.
Qed.

(* ---- one step ---- *)
Lemma captured_frame_step K st o f : Inv1 st -> stack st <> [] -> f < nfr st -> used st f ->
  let st' := fst (step K st o) in
  same_var_frame (getf st' f) (getf st f) /\ f < nfr st' /\ used st' f.
Proof.
  intros I NE Lf U. assert (Lv : live st f) by (right; auto).
  assert (Same : forall st', getf st' f = getf st f -> nfr st <= nfr st' -> same_var_frame (getf st' f) (getf st f) /\ f < nfr st' /\ used st' f).
  { intros st' E N. unfold used. rewrite E. repeat split; auto. lia. }
  destruct o; simpl.
  - destruct (nth_error (clos st) c); simpl; [|apply Same; auto].
    destruct (new_env st n nv ni) as [st1 f1] eqn:N. simpl.
    destruct (new_env_fresh _ _ _ _ _ _ I N) as (P & _ & _ & _ & Flive & _ & _ & Fn).
    apply Same; [|unfold nfr; simpl; rewrite write_args_frames; exact Fn].
    change (getf (write_args st1 f1 0 args) f = getf st f). rewrite write_args_getf. apply (ne_other _ _ _ _ _ _ P); auto.
  - destruct (stack st) as [|call [|caller rest]]; simpl; try (apply Same; auto; fail).
    apply Same; [|change (nfr (free_env K st (last_frame call)) >= nfr st); rewrite free_env_nfr; lia].
    change (getf (free_env K st (last_frame call)) f = getf st f). apply free_env_used; auto.
  - destruct (stack st) as [|call rest]; simpl; [apply Same; auto|].
    destruct (new_env st (cur st) nv ni) as [st1 f1] eqn:N. simpl.
    destruct (new_env_fresh _ _ _ _ _ _ I N) as (P & _ & _ & _ & Flive & _ & _ & Fn).
    apply Same; auto. change (getf st1 f = getf st f). apply (ne_other _ _ _ _ _ _ P); auto.
  - destruct (stack st) as [|[|b [|g call']] rest]; simpl; try (apply Same; auto; fail).
    apply Same; [|change (nfr (free_env K st b) >= nfr st); rewrite free_env_nfr; lia].
    change (getf (free_env K st b) f = getf st f). apply free_env_used; auto.
  - destruct (stack st) as [|call rest]; simpl; [apply Same; auto|].
    destruct (k <? length call); simpl; apply Same; auto.
  - unfold used, nfr, getf; simpl. rewrite mark_length.
    destruct (mark_frame (length (frames st)) (frames st) (Some (cur st)) f) as [H|H]; rewrite H.
    + repeat split; auto.
    + repeat split; auto.
  - destruct (up (frames st) upn (cur st)) as [g|]; simpl; [|apply Same; auto].
    destruct (loc_of st (cur st) upn slot); simpl; [|apply Same; auto].
    unfold used, nfr, getf; simpl. rewrite upd_length. destruct (Nat.eq_dec g f) as [->|N].
    + rewrite nth_upd_eq by auto. repeat split; auto.
    + rewrite nth_upd_neq by auto. repeat split; auto.
  - destruct (loc_of st (cur st) upn slot); simpl; apply Same; auto.
  - destruct (loc_of st (cur st) upn slot); simpl; apply Same; auto.
  - destruct (nth_error (ptrs st) p); simpl; apply Same; auto.
  - destruct (nth_error (ptrs st) p); simpl; apply Same; auto.
Qed.

Lemma pointer_step K st o a i : Inv1 st -> stack st <> [] -> In (a, i) (ptrs st) ->
  let st' := fst (step K st o) in
  In (a, i) (ptrs st') /\ a_owner (geta st' a) = a_owner (geta st a) /\
  (match o with OSet _ _ _ | OPSet _ _ => True | _ => a_data (geta st' a) = a_data (geta st a) end).
Proof.
  intros I NE Hp. destruct (i_ptr _ I a i Hp) as (La & Hiat).
  assert (NewEnv : forall outer nv ni st1 f1, new_env st outer nv ni = (st1, f1) ->
            In (a, i) (ptrs st1) /\ a_owner (geta st1 a) = a_owner (geta st a) /\ a_data (geta st1 a) = a_data (geta st a) /\
            f_arr (getf st1 f1) <> Some a).
  { intros outer nv ni st1 f1 N.
    destruct (new_env_fresh _ _ _ _ _ _ I N) as (P & _ & _ & _ & Flive & Fu & Fi & Fn).
    assert (NotMine : f_arr (getf st f1) <> Some a \/ pool st = []).
    { destruct (pool st) as [|p ps] eqn:Pool; [right; auto|left]. intros A.
      assert (f1 < nfr st). { rewrite (ne_f _ _ _ _ _ _ P). unfold taken. rewrite Pool. apply (i_pool_lt _ I). rewrite Pool. left; auto. }
      specialize (Hiat f1 H A). congruence. }
    rewrite (ne_ptrs _ _ _ _ _ _ P). repeat split; auto.
    - apply (ne_owner _ _ _ _ _ _ P); auto.
    - apply (ne_data _ _ _ _ _ _ P); auto.
    - intros A. destruct (ne_arr _ _ _ _ _ _ P a A) as (_ & _ & _ & Hold). destruct (Hold La) as (A' & Pne).
      destruct NotMine; congruence. }
  destruct o; simpl; auto.
  - destruct (nth_error (clos st) c); simpl; auto.
    destruct (new_env st n nv ni) as [st1 f1] eqn:N. simpl.
    destruct (NewEnv _ _ _ _ _ N) as (Q1 & Q2 & Q3 & Q4).
    change (In (a, i) (ptrs (write_args st1 f1 0 args)) /\ a_owner (geta (write_args st1 f1 0 args) a) = a_owner (geta st a) /\
            a_data (geta (write_args st1 f1 0 args) a) = a_data (geta st a)).
    rewrite write_args_ptrs, write_args_owner, write_args_data; auto.
  - destruct (stack st) as [|call [|caller rest]]; simpl; auto.
    change (In (a, i) (ptrs (free_env K st (last_frame call))) /\ a_owner (geta (free_env K st (last_frame call)) a) = a_owner (geta st a) /\
            a_data (geta (free_env K st (last_frame call)) a) = a_data (geta st a)).
    unfold geta. rewrite free_env_ptrs, free_env_arrs. auto.
  - destruct (stack st) as [|call rest]; simpl; auto.
    destruct (new_env st (cur st) nv ni) as [st1 f1] eqn:N. simpl.
    destruct (NewEnv _ _ _ _ _ N) as (Q1 & Q2 & Q3 & Q4). auto.
  - destruct (stack st) as [|[|b [|g call']] rest]; simpl; auto.
    change (In (a, i) (ptrs (free_env K st b)) /\ a_owner (geta (free_env K st b) a) = a_owner (geta st a) /\
            a_data (geta (free_env K st b) a) = a_data (geta st a)).
    unfold geta. rewrite free_env_ptrs, free_env_arrs. auto.
  - destruct (stack st) as [|call rest]; simpl; auto. destruct (k <? length call); simpl; auto.
  - destruct (up (frames st) upn (cur st)) as [g|]; simpl; auto.
    destruct (loc_of st (cur st) upn slot); simpl; auto. split; auto. apply in_or_app. left; auto.
  - destruct (loc_of st (cur st) upn slot); simpl; auto. repeat split; auto. apply wr_owner.
  - destruct (loc_of st (cur st) upn slot); simpl; auto.
  - destruct (nth_error (ptrs st) p); simpl; auto. repeat split; auto. apply wr_owner.
  - destruct (nth_error (ptrs st) p); simpl; auto.
Qed.

(* ---- any later history ---- *)
Lemma captured_frame_stable K ops ops' f : let st := exec K ops in let st' := exec K (ops ++ ops') in
  f < nfr st -> f_used (getf st f) = true ->
  same_var_frame (getf st' f) (getf st f) /\ f < nfr st' /\ f_used (getf st' f) = true.
Proof.
  intros st st' Lf U. unfold st', exec. rewrite run_app. fold (exec K ops). fold st.
  destruct (inv1_exec K ops) as (I & NE). fold st in I, NE.
  clearbody st. clear st'. revert st I NE Lf U.
  induction ops' as [|o ops' IH]; intros st I NE Lf U; simpl.
  - repeat split; auto.
  - destruct (step K st o) as [st1 r] eqn:E.
    destruct (captured_frame_step K st o f I NE Lf U) as (S1 & L1 & U1).
    destruct (inv1_step K st o I NE) as (I1 & NE1). rewrite E in *. simpl in *.
    destruct (IH st1 I1 NE1 L1 U1) as (S2 & L2 & U2).
    destruct (run K st1 ops') as [s2 r2]. simpl in *.
    destruct S1 as (a1 & a2 & a3 & a4). destruct S2 as (b1 & b2 & b3 & b4).
    repeat split; auto; congruence.
Qed.

Lemma pointer_target_stable K ops ops' a i : let st := exec K ops in let st' := exec K (ops ++ ops') in
  In (a, i) (ptrs st) ->
  In (a, i) (ptrs st') /\ a_owner (geta st' a) = a_owner (geta st a) /\
  (Forall (fun o => match o with OSet _ _ _ | OPSet _ _ => False | _ => True end) ops' ->
   a_data (geta st' a) = a_data (geta st a)).
Proof.
  intros st st' Hp. unfold st', exec. rewrite run_app. fold (exec K ops). fold st.
  destruct (inv1_exec K ops) as (I & NE). fold st in I, NE.
  clearbody st. clear st'. revert st I NE Hp.
  induction ops' as [|o ops' IH]; intros st I NE Hp; simpl.
  - repeat split; auto.
  - destruct (step K st o) as [st1 r] eqn:E.
    destruct (pointer_step K st o a i I NE Hp) as (P1 & O1 & D1).
    destruct (inv1_step K st o I NE) as (I1 & NE1). rewrite E in *. simpl in *.
    destruct (IH st1 I1 NE1 P1) as (P2 & O2 & D2).
    destruct (run K st1 ops') as [s2 r2]. simpl in *.
    repeat split; auto; try congruence.
    intros F. inversion F; subst. rewrite D2 by auto. destruct o; auto; contradiction.
Qed.

Lemma call_protocol_results K st rs call caller rest : stack st = call :: caller :: rest ->
  snd (step K st (ORet rs)) =
  RVals (map (fun r => match loc_of st (last_frame call) 0 r with Some l => rd st l | None => None end) rs).
Proof. intros S. simpl. rewrite S. reflexivity. Qed.

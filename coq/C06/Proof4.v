(* C06 — the simulation relation between the frame machine [step K] and the Go-spec machine [sstep],
   and its preservation by reads and writes.  (Preservation by the frame operations: Proof5.v.)
   Relation [Sim st s]: activation n of the spec machine = the frame whose ghost field f_act is n, for every LIVE frame
   (on the call stack or marked UsedByClosure); the spec variable (n, slot) = cell [slot] of the Ints array whose
   ghost owner is n; frames in the pool and arrays of dead activations correspond to nothing. *)
From Coq Require Import List Arith ZArith Bool Lia.
From Verif Require Import C06.Model C06.Proof C06.Proof2 C06.Proof3.
Import ListNotations.

Lemma Forall2_imp {A B} (P Q : A -> B -> Prop) l1 l2 :
  (forall a b, P a b -> Q a b) -> Forall2 P l1 l2 -> Forall2 Q l1 l2.
Proof. intros H F. induction F; constructor; auto. Qed.

Definition ptr_rel (st : state) (p k : nat * nat) : Prop :=
  fst p < narr st /\ a_owner (geta st (fst p)) = fst k /\ snd p = snd k /\ snd p < acap st (fst p).

Record Sim (st : state) (s : sstate) : Prop := {
  sm_nact : length (s_outer s) = nact st;
  sm_nints_len : length (s_nints s) = nact st;
  sm_stack : s_stack s = map (map (act st)) (stack st);
  sm_clos : s_clos s = map (act st) (clos st);
  sm_ptrs : Forall2 (ptr_rel st) (ptrs st) (s_ptrs s);
  sm_act_lt : forall f, live st f -> act st f < nact st;
  sm_outer : forall f, live st f ->
             nth (act st f) (s_outer s) None = option_map (act st) (f_outer (getf st f));
  sm_nints : forall f, live st f -> nth (act st f) (s_nints s) 0 = f_nints (getf st f);
  sm_arr : forall f, live st f ->
           match f_arr (getf st f) with
           | Some a => a_owner (geta st a) = act st f /\ f_nints (getf st f) <= acap st a
           | None => f_nints (getf st f) = 0
           end;
  sm_store : forall a slot v, a < narr st ->
             slookup (s_store s) (a_owner (geta st a), slot) = Some v ->
             nth_error (a_data (geta st a)) slot = Some v;
  sm_owner_inj : forall a b, a < narr st -> b < narr st ->
                 a_owner (geta st a) = a_owner (geta st b) -> a = b;
  sm_owner_lt : forall a, a < narr st -> a_owner (geta st a) < nact st;
  sm_store_fresh : forall n j, nact st <= n -> slookup (s_store s) (n, j) = None
}.

Lemma sim_init : Sim init sinit.
Proof.
  constructor; simpl; auto.
  - intros f [H|[H U]].
    + simpl in H. destruct H as [<-|[]]. unfold act, getf; simpl. lia.
    + unfold nfr in H. simpl in H. unfold act, getf; simpl.
      destruct f as [|[|f]]; simpl; lia.
  - intros f [H|[H U]].
    + simpl in H. destruct H as [<-|[]]. reflexivity.
    + unfold nfr in H. simpl in H. destruct f as [|[|f]]; try reflexivity. lia.
  - intros f [H|[H U]].
    + simpl in H. destruct H as [<-|[]]. reflexivity.
    + unfold nfr in H. simpl in H. destruct f as [|[|f]]; try reflexivity. lia.
  - intros f [H|[H U]].
    + simpl in H. destruct H as [<-|[]]. reflexivity.
    + unfold nfr in H. simpl in H. destruct f as [|[|f]]; try reflexivity. lia.
  - intros a slot v H. unfold narr in H. simpl in H. lia.
  - intros a b H. unfold narr in H. simpl in H. lia.
  - intros a H. unfold narr in H. simpl in H. lia.
Qed.

(* ---------- variable lookup ---------- *)
Lemma sim_up st s n : Inv1 st -> Sim st s -> forall f, live st f ->
  match up (frames st) n f with
  | Some g => live st g /\ sup (s_outer s) n (act st f) = Some (act st g)
  | None => sup (s_outer s) n (act st f) = None
  end.
Proof.
  intros I S. induction n as [|n IH]; intros f L; simpl.
  - split; auto.
  - fold (getf st f). rewrite (sm_outer _ _ S f L).
    destruct (f_outer (getf st f)) as [h|] eqn:O; simpl; [|reflexivity].
    apply IH. eapply live_outer; eauto.
Qed.

Lemma sim_loc st s f upn slot : Inv1 st -> Sim st s -> live st f ->
  match loc_of st f upn slot with
  | Some l => fst l < narr st /\ snd l < acap st (fst l) /\
              svar s (act st f) upn slot = Some (a_owner (geta st (fst l)), snd l)
  | None => svar s (act st f) upn slot = None
  end.
Proof.
  intros I S L. unfold loc_of, svar. pose proof (sim_up st s upn I S f L) as U.
  destruct (up (frames st) upn f) as [g|]; [|rewrite U; reflexivity].
  destruct U as [Lg E]. rewrite E. cbv zeta. rewrite (sm_nints _ _ S g Lg).
  destruct (slot <? f_nints (getf st g)) eqn:B; [|reflexivity].
  apply Nat.ltb_lt in B. pose proof (sm_arr _ _ S g Lg) as A.
  destruct (f_arr (getf st g)) as [a|] eqn:FA.
  - destruct A as [Ow Cap]. simpl. repeat split.
    + eapply (i_arr_lt _ I); eauto. eapply live_lt; eauto.
    + lia.
    + rewrite Ow. reflexivity.
  - lia.
Qed.

(* ---------- reads ---------- *)
Lemma sim_rd st s a i : Sim st s -> a < narr st ->
  val_refines (rd st (a, i)) (slookup (s_store s) (a_owner (geta st a), i)) = true.
Proof.
  intros S H. destruct (slookup (s_store s) (a_owner (geta st a), i)) as [v|] eqn:E; [|reflexivity].
  unfold rd. simpl. rewrite (sm_store _ _ S a i v H E). simpl. apply Z.eqb_refl.
Qed.

(* ---------- writes ---------- *)
Lemma slookup_cons k v s k' :
  slookup ((k, v) :: s) k' = if (fst k =? fst k') && (snd k =? snd k') then Some v else slookup s k'.
Proof. destruct k; reflexivity. Qed.

Lemma sim_wr st s a i v : Sim st s -> a < narr st -> i < acap st a ->
  Sim (wr st (a, i) v) (swr s (a_owner (geta st a), i) v).
Proof.
  intros S Ha Hi. destruct S as [S1 S2 S3 S4 S5 S6 S7 S8 S9 S10 S11 S12 S13].
  constructor; try assumption.
  - (* ptrs *)
    change (ptrs (wr st (a, i) v)) with (ptrs st). change (s_ptrs (swr s (a_owner (geta st a), i) v)) with (s_ptrs s).
    eapply Forall2_imp; [|exact S5]. intros p k (P1 & P2 & P3 & P4).
    unfold ptr_rel. rewrite wr_narr, wr_owner, wr_acap. auto.
  - (* arr *)
    intros f L. specialize (S9 f L). change (getf (wr st (a, i) v) f) with (getf st f).
    change (act (wr st (a, i) v) f) with (act st f).
    destruct (f_arr (getf st f)); auto. rewrite wr_owner, wr_acap. auto.
  - (* store *)
    intros b slot w Hb. rewrite wr_narr in Hb. rewrite wr_owner.
    change (s_store (swr s (a_owner (geta st a), i) v)) with (((a_owner (geta st a), i), v) :: s_store s).
    rewrite slookup_cons. simpl fst. simpl snd.
    destruct (Nat.eq_dec a b) as [<-|N].
    + rewrite Nat.eqb_refl. simpl andb. rewrite wr_geta_eq by auto. simpl a_data.
      destruct (i =? slot) eqn:E.
      * apply Nat.eqb_eq in E. subst slot. intros H; inversion H; subst.
        apply nth_error_upd_eq. exact Hi.
      * apply Nat.eqb_neq in E. intros H. rewrite nth_error_upd_neq by auto. eauto.
    + rewrite wr_geta_neq by auto.
      destruct (a_owner (geta st a) =? a_owner (geta st b)) eqn:E.
      * apply Nat.eqb_eq in E. exfalso. apply N. eapply S11; eauto.
      * simpl andb. eauto.
  - (* owner inj *)
    intros b c Hb Hc. rewrite wr_narr in *. rewrite !wr_owner. auto.
  - intros b Hb. rewrite wr_narr in Hb. rewrite wr_owner. auto.
  - (* fresh *)
    intros n j Hn. change (s_store (swr s (a_owner (geta st a), i) v)) with (((a_owner (geta st a), i), v) :: s_store s).
    rewrite slookup_cons. simpl fst. change (nact (wr st (a, i) v)) with (nact st) in Hn.
    specialize (S12 a Ha). destruct (a_owner (geta st a) =? n) eqn:E.
    + apply Nat.eqb_eq in E. lia.
    + simpl andb. cbv iota. auto.
Qed.

(* C20 — property theorems only: each closed by [exact lemma], followed by Print Assumptions.
   Proved: the list scan (argument consumption, results in order), the fixpoint iteration, the ~quote barrier, the
   macro-free behaviour of MacroExpand1, and (Proof2.v) for ALL trees, ALL quasiquote depths and ALL fuels:
   - C20_macro_free_identity: whenever the whole walk (macroExpandCodewalk) succeeds on code in which no macro name
     occurs, its result is exactly the executable spec [strip] of the input and "nothing expanded" is reported
     (side condition: every ~quote form has a body; shown necessary by C20_macro_free_identity_no_body_refuted);
   - C20_quasiquote_only_unquoted: the result of the walk depends on the macro table only through the parts of the
     tree at quasiquote depth <= 0 (the unquoted parts).
   - C20_macro_free_fuel (Proof3.v): on such code the walk never runs out of fuel once fuel > height of the tree,
     so it returns either the [strip] result or Err.
   NOT proved: a characterisation of WHEN the walk returns Err on macro-free code (a Set/Append coercion fails, or
   a quote-like form without body is met below depth 0 or above it) — [strip] may succeed where the walk fails, because the
   walk also traverses the bodies of quote-like forms and MacroExpand1 coerces every list element; and nothing is
   proved about the walk of code where macros DO occur at depth <= 0 beyond the per-list theorems above (known
   findings C20-K1 / C20-K2 live there; they do not affect the theorems below, whose hypotheses exclude macro calls at depth <= 0). *)
From Coq Require Import List NArith ZArith Bool.
From Verif Require Import Common.Rose C21.Model C20.Model C20.Proof C20.Proof2 C20.Proof3.
Import ListNotations.
Open Scope Z_scope.

(* each macro call consumes exactly argn following elements and is replaced, in place, by the macro's results in
   order; other elements are copied; the scan reports expansion iff a macro call was met (relation Scan in Proof.v) *)
Theorem C20_consumes_argn_results_in_order : forall mk macros f k elts acc e out e',
  scan mk macros f k elts acc e = Ok (out, e') ->
  exists out' b, Scan mk macros k elts out' b /\ out = acc ++ out' /\ e' = e || b.
Proof. exact scan_Scan. Qed.
Print Assumptions C20_consumes_argn_results_in_order.

(* expansion repeats until no macro call remains at that position: the result of MacroExpand is a fixpoint of MacroExpand1 *)
Theorem C20_reexpand_until_fixpoint : forall mk macros f t t' b,
  macro_expand mk macros f t = Ok (t', b) -> macro_expand1 mk macros t' = Ok (t', false).
Proof. exact macro_expand_fixpoint. Qed.
Print Assumptions C20_reexpand_until_fixpoint.

(* code inside a ~quote (outside any quasiquote) is returned untouched, whatever the macro table *)
Theorem C20_quote_untouched : forall mk macros f i ops k ks,
  walk mk macros (S (S f)) 0 (Node i TUnaryExpr (QUOTE :: ops) (k :: ks)) =
  Ok (Node i TUnaryExpr (QUOTE :: ops) (k :: ks), false).
Proof. exact quote_untouched. Qed.
Print Assumptions C20_quote_untouched.

(* partial: on macro-free code one MacroExpand1 step changes nothing but the trivial wrappers of its argument and
   reports no expansion (the full statement "walk = strip" is not proved, see the header) *)
Theorem C20_macro_free_identity_partial : forall mk macros t r,
  (forall e, macro_of macros e = None) -> macro_expand1 mk macros t = Ok r -> r = (unwrap_trivial false t, false).
Proof. exact macro_expand1_macro_free. Qed.
Print Assumptions C20_macro_free_identity_partial.

(* leaves are returned as they are at every depth *)
Theorem C20_leaf_untouched : forall mk macros f qd t, size0 t = true -> walk mk macros (S f) qd t = Ok (t, false).
Proof. exact leaf_untouched. Qed.
Print Assumptions C20_leaf_untouched.

(* ---------- the whole walk on macro-free code (Proof2.v) ---------- *)
(* [macro_free macros t]: no sub-tree of t is, after removing trivial wrappers, an identifier bound to a macro;
   [quote_bodies t]: every ~quote{..} form in t has a body (true of every parsed tree).
   For every fuel, every quasiquote depth qd and every tree: if the walk returns Ok r then r is what the spec [strip]
   computes (same fuel) and the "anything expanded" flag is false. *)
Theorem C20_macro_free_identity : forall mk macros f qd t r,
  macro_free macros t -> quote_bodies t ->
  walk mk macros f qd t = Ok r -> strip mk f t = Ok r /\ snd r = false.
Proof. exact macro_free_identity. Qed.
Print Assumptions C20_macro_free_identity.

(* [macro_free] read at the level of identifiers: no identifier of the tree names a macro *)
Theorem C20_macro_free_is_no_macro_name : forall macros t,
  AllSub (ident_not_macro macros) t <-> macro_free macros t.
Proof. exact (fun macros t => conj (macro_free_idents macros t) (idents_macro_free macros t)). Qed.
Print Assumptions C20_macro_free_is_no_macro_name.

(* the same with the hypothesis of C20_macro_free_identity_partial (nothing at all is a macro call) *)
Theorem C20_macro_free_identity_table : forall mk macros f qd t r,
  (forall e, macro_of macros e = None) -> quote_bodies t ->
  walk mk macros f qd t = Ok r -> strip mk f t = Ok r /\ snd r = false.
Proof. exact macro_free_identity_table. Qed.
Print Assumptions C20_macro_free_identity_table.

(* sharper: macro names (and ~quote forms without body) are excluded only from the parts of t that the walk visits at
   depth <= 0, t itself being visited at depth qd  ([Under P t qd]: P holds of every sub-tree at depth <= 0) *)
Theorem C20_macro_free_identity_depth : forall mk macros f qd t r,
  Under (Good macros) t qd -> walk mk macros f qd t = Ok r -> strip mk f t = Ok r /\ snd r = false.
Proof. exact macro_free_identity_depth. Qed.
Print Assumptions C20_macro_free_identity_depth.

(* the side condition [quote_bodies] cannot be dropped: the body-less form  Node TUnaryExpr [QUOTE] [nil]  is macro-free,
   the walk returns it unchanged at depth 0 (the QUOTE barrier does not look inside) but [strip] rejects it.
   (Such a tree is never produced by the parser; this is a limit of the spec [strip], not a defect of gomacro.) *)
Theorem C20_macro_free_identity_no_body_refuted : forall mk macros,
  exists t, macro_free macros t /\ walk mk macros 2 0 t = Ok (t, false) /\ strip mk 2 t = Err.
Proof. exact macro_free_identity_needs_quote_bodies. Qed.
Print Assumptions C20_macro_free_identity_no_body_refuted.

(* ---------- fuel (Proof3.v) ---------- *)
(* on macro-free code the walk never answers OutOfFuel once fuel > height t (the correspondence run uses
   walk_fuel t = 3 * height t + 40); nothing but exhausted fuel ever produces OutOfFuel *)
Theorem C20_macro_free_fuel : forall mk macros f qd t,
  macro_free macros t -> (height t < f)%nat -> walk mk macros f qd t <> OutOfFuel.
Proof. exact macro_free_fuel. Qed.
Print Assumptions C20_macro_free_fuel.

(* the same when macro calls are excluded only from the parts of t visited at depth <= 0 *)
Theorem C20_macro_free_fuel_depth : forall mk macros f qd t,
  Under (fun s => macro_of macros s = None) t qd -> (height t < f)%nat -> walk mk macros f qd t <> OutOfFuel.
Proof. exact macro_free_fuel_depth. Qed.
Print Assumptions C20_macro_free_fuel_depth.

(* together: with enough fuel the walk of macro-free code either returns exactly what [strip] returns, reporting no
   expansion, or fails with Err (a Set/Append coercion or a quote-like form without body) *)
Theorem C20_macro_free_total : forall mk macros f qd t,
  macro_free macros t -> quote_bodies t -> (height t < f)%nat ->
  (exists x, walk mk macros f qd t = Ok (x, false) /\ strip mk f t = Ok (x, false)) \/ walk mk macros f qd t = Err.
Proof. exact macro_free_total. Qed.
Print Assumptions C20_macro_free_total.

(* ---------- quasiquote: code is expanded only where it is unquoted (Proof2.v) ---------- *)
(* [unquoted_macro_free m1 m2 t qd]: in the parts of t that lie at quasiquote depth <= 0 when t is visited at depth qd
   (~quasiquote: +1, ~unquote / ~unquote_splice: -1) no macro name of m1 or of m2 occurs; the parts at depth >= 1 are
   unconstrained and the two tables are unrelated.  Then the walk gives the very same result (Ok, Err or OutOfFuel)
   with both tables: macro names inside quoted code are never looked up, whatever the tables bind them to. *)
Theorem C20_quasiquote_only_unquoted : forall mk m1 m2 f qd t,
  unquoted_macro_free m1 m2 t qd -> walk mk m1 f qd t = walk mk m2 f qd t.
Proof. exact quasiquote_only_unquoted_strong. Qed.
Print Assumptions C20_quasiquote_only_unquoted.

(* special case: [Quoted t qd] = no part of t is at depth <= 0 (so qd >= 1 and no unquote nesting reaches depth 0):
   the result is independent of the macro table altogether ... *)
Theorem C20_quasiquote_quoted_table_independent : forall mk m1 m2 f qd t,
  Quoted t qd -> walk mk m1 f qd t = walk mk m2 f qd t.
Proof. exact quasiquote_only_unquoted. Qed.
Print Assumptions C20_quasiquote_quoted_table_independent.

(* ... and is the [strip] of the input, nothing expanded *)
Theorem C20_quasiquote_quoted_is_strip : forall mk macros f qd t r,
  Quoted t qd -> walk mk macros f qd t = Ok r -> strip mk f t = Ok r /\ snd r = false.
Proof. exact quoted_is_strip. Qed.
Print Assumptions C20_quasiquote_quoted_is_strip.

Theorem C20_quoted_depth_positive : forall t qd, Quoted t qd -> 1 <= qd.
Proof. exact Quoted_depth. Qed.
Print Assumptions C20_quoted_depth_positive.

(* the hypotheses are satisfiable on non-trivial values *)
Definition ex_macros (n : N) : option (nat * (list tree -> list tree)) :=
  if N.eqb n 5 then Some (1%nat, fun args => args) else None.
Definition ex_ident (n : N) : tree := Node 0 TIdent [n] [].
Definition ex_form (op : N) (body : list tree) : tree :=
  Node 0 TUnaryExpr [op] [Some (Node 0 TFuncLit [] [None; Some (Slice 0 SBlock [] body)])].
(* { (x7); ~quote{ y8 } }  with macro table {5}: macro-free, all quote forms have bodies *)
Example ex_macro_free :
  let t := Slice 0 SBlock [] [Node 0 TParenExpr [] [Some (ex_ident 7)]; ex_form QUOTE [ex_ident 8; ex_ident 9]] in
  macro_free ex_macros t /\ quote_bodies t.
Proof.
  unfold macro_free, quote_bodies, ex_form, ex_ident; simpl; unfold quote_ok; simpl.
  repeat split; try reflexivity; try (intros; discriminate).
Qed.
(* ~quasiquote{ m5; ~unquote{ m5 } } visited at depth 1 mentions the macro m5 but only at depths 2 and 1: Quoted *)
Example ex_quoted : Quoted (ex_form QUASIQUOTE [ex_ident 5; ex_form UNQUOTE [ex_ident 5]]) 1.
Proof. cbv; intuition. Qed.
(* ~quasiquote{ m5; ~unquote{ x7 } } visited at depth 0: the macro name m5 occurs at depth 1 only *)
Example ex_unquoted_macro_free :
  unquoted_macro_free ex_macros (fun _ => None) (ex_form QUASIQUOTE [ex_ident 5; ex_form UNQUOTE [ex_ident 7]]) 0.
Proof. cbv; intuition. Qed.

(* C20 — property theorems only: each closed by [exact lemma], followed by Print Assumptions.
   Proved: the list scan (argument consumption, results in order), the fixpoint iteration, the ~quote barrier, and
   the macro-free behaviour of MacroExpand1.  NOT proved (stated as the executable spec [strip] in C20/Model.v and tied to
   the code only by the harness: stream A direct oracle + correspondence run): that the whole walk equals [strip] on
   macro-free code, and that at quasiquote depth >= 1 the result is independent of the macro table. *)
From Coq Require Import List NArith ZArith Bool.
From Verif Require Import Common.Rose C21.Model C20.Model C20.Proof.
Import ListNotations.
Open Scope Z_scope.

(* each macro call consumes exactly argn following elements and is replaced, in place, by the macro's results in
   order; other elements are copied; the scan reports expansion iff a macro call was met (relation Scan in Proof.v) *)
Theorem C20_consumes_argn_results_in_order : forall mk macros f k elts acc e out e',
  scan mk macros f k elts acc e = Ok (out, e') ->
  exists out' b, Scan mk macros k elts out' b /\ out = acc ++ out' /\ e' = e || b.
Proof. exact scan_Scan. Qed.
Print Assumptions C20_consumes_argn_results_in_order.

(* expansion repeats until no macro call remains at that position: the result of MacroExpand is a fixpoint of MacroExpand1 *)
Theorem C20_reexpand_until_fixpoint : forall mk macros f t t' b,
  macro_expand mk macros f t = Ok (t', b) -> macro_expand1 mk macros t' = Ok (t', false).
Proof. exact macro_expand_fixpoint. Qed.
Print Assumptions C20_reexpand_until_fixpoint.

(* code inside a ~quote (outside any quasiquote) is returned untouched, whatever the macro table *)
Theorem C20_quote_untouched : forall mk macros f i ops k ks,
  walk mk macros (S (S f)) 0 (Node i TUnaryExpr (QUOTE :: ops) (k :: ks)) =
  Ok (Node i TUnaryExpr (QUOTE :: ops) (k :: ks), false).
Proof. exact quote_untouched. Qed.
Print Assumptions C20_quote_untouched.

(* partial: on macro-free code one MacroExpand1 step changes nothing but the trivial wrappers of its argument and
   reports no expansion (the full statement "walk = strip" is not proved, see the header) *)
Theorem C20_macro_free_identity_partial : forall mk macros t r,
  (forall e, macro_of macros e = None) -> macro_expand1 mk macros t = Ok r -> r = (unwrap_trivial false t, false).
Proof. exact macro_expand1_macro_free. Qed.
Print Assumptions C20_macro_free_identity_partial.

(* leaves are returned as they are at every depth *)
Theorem C20_leaf_untouched : forall mk macros f qd t, size0 t = true -> walk mk macros (S f) qd t = Ok (t, false).
Proof. exact leaf_untouched. Qed.
Print Assumptions C20_leaf_untouched.

(* C20 — lemmas about the macro expansion model *)
From Coq Require Import List NArith ZArith Bool Lia.
From Verif Require Import Common.Rose C21.Model C21.Proof C20.Model.
Import ListNotations.
Open Scope Z_scope.

Section Proofs.
  Variable mk : N -> N.
  Variable macros : N -> option (nat * (list tree -> list tree)).

  Notation macro_of := (macro_of macros).
  Notation scan := (scan mk macros).
  Notation append_results := (append_results mk).
  Notation macro_expand1 := (macro_expand1 mk macros).
  Notation macro_expand := (macro_expand mk macros).
  Notation walk := (walk mk macros).

  (* ---------- the list scan of MacroExpand1, declaratively ----------
     a non-macro element is copied; a macro call takes exactly the next argn elements as arguments and is replaced,
     at its position, by the macro's results in order (block / bare-slice results spread); scanning resumes after
     the consumed arguments *)
  Inductive Scan (k : slot) : list tree -> list tree -> bool -> Prop :=
  | Scan_nil : Scan k [] [] false
  | Scan_plain : forall e rest y out b,
      macro_of e = None -> coerce mk k e = Ok y -> Scan k rest out b -> Scan k (e :: rest) (y :: out) b
  | Scan_macro : forall e rest argn fn ys out b,
      macro_of e = Some (argn, fn) -> (argn <= length rest)%nat ->
      append_results k [] (fn (firstn argn rest)) = Ok ys ->
      Scan k (skipn argn rest) out b -> Scan k (e :: rest) (ys ++ out) true.

  Lemma append_results_eq : forall k rs acc,
    append_results k acc rs = (ys <- append_results k [] rs ;; Ok (acc ++ ys)).
  Proof.
    induction rs as [|x rs IH]; intros acc; simpl.
    - rewrite app_nil_r. reflexivity.
    - destruct (spread x).
      + destruct (mapM (coerce mk k) (elems x)) as [a| |]; simpl; try reflexivity.
        rewrite (IH (acc ++ a)), (IH a).
        destruct (Model.append_results mk k [] rs); simpl; try reflexivity. rewrite app_assoc. reflexivity.
      + destruct (coerce mk k x) as [a| |]; simpl; try reflexivity.
        rewrite (IH (acc ++ [a])), (IH [a]).
        destruct (Model.append_results mk k [] rs); simpl; try reflexivity. rewrite <- app_assoc. reflexivity.
  Qed.

  Lemma append_results_acc : forall k rs acc r,
    append_results k acc rs = Ok r -> exists ys, append_results k [] rs = Ok ys /\ r = acc ++ ys.
  Proof.
    intros k rs acc r H. rewrite append_results_eq in H. inv_bind H. inversion Hk; subst. eauto.
  Qed.

  Lemma scan_Scan : forall f k elts acc e out e',
    scan f k elts acc e = Ok (out, e') ->
    exists out' b, Scan k elts out' b /\ out = acc ++ out' /\ e' = e || b.
  Proof.
    induction f as [|f IH]; intros k elts acc e out e' H; simpl in H; [discriminate|].
    destruct elts as [|elt rest].
    - inversion H; subst. exists [], false. rewrite app_nil_r, orb_false_r. repeat split. constructor.
    - destruct (macro_of elt) as [[argn fn]|] eqn:Hm.
      + destruct (length rest <? argn)%nat eqn:Hl; [discriminate|]. apply Nat.ltb_ge in Hl.
        destruct (forallb is_node (firstn argn rest)); [|discriminate].
        inv_bind H. destruct (append_results_acc _ _ _ _ Hb) as (ys & Hy & E). subst a.
        destruct (IH _ _ _ _ _ _ Hk) as (out' & b & HS & Eo & Ee). subst out e'.
        exists (ys ++ out'), true. split; [econstructor; eauto|].
        split; [rewrite app_assoc; reflexivity | rewrite orb_true_r; reflexivity].
      + inv_bind H. destruct (IH _ _ _ _ _ _ Hk) as (out' & b & HS & Eo & Ee). subst out e'.
        exists (a :: out'), b. split; [econstructor; eauto|].
        split; [rewrite <- app_assoc; reflexivity | reflexivity].
  Qed.

  (* a list without macro calls is scanned without any expansion *)
  Lemma Scan_macro_free : forall k elts out b,
    Scan k elts out b -> (forall e, In e elts -> macro_of e = None) -> b = false /\ length out = length elts.
  Proof.
    induction 1; intros Hfree.
    - auto.
    - destruct IHScan as [E L]; [intros; apply Hfree; simpl; auto|]. simpl. auto.
    - rewrite (Hfree e (or_introl eq_refl)) in H. discriminate.
  Qed.

  Lemma scan_macro_free : forall f k elts out e',
    (forall e, In e elts -> macro_of e = None) ->
    scan f k elts [] false = Ok (out, e') -> e' = false /\ length out = length elts.
  Proof.
    intros f k elts out e' Hfree H. destruct (scan_Scan _ _ _ _ _ _ _ H) as (out' & b & HS & Eo & Ee).
    destruct (Scan_macro_free _ _ _ _ HS Hfree) as [Eb L]. subst. simpl. auto.
  Qed.

  (* MacroExpand1 on macro-free code only removes the DeclStmt/ExprStmt/ParenExpr wrappers of its argument *)
  Lemma macro_expand1_macro_free : forall t r,
    (forall e, macro_of e = None) -> macro_expand1 t = Ok r -> r = (unwrap_trivial false t, false).
  Proof.
    intros t r Hfree H. unfold Model.macro_expand1 in H.
    destruct (unwrap_trivial false t) as [i tg a k|i s a k]; [inversion H; reflexivity|].
    inv_bind H. destruct a0 as [outs ex].
    destruct (scan_macro_free _ _ _ _ _ (fun e _ => Hfree e) Hb) as [E _]. subst ex.
    simpl in Hk. inversion Hk. reflexivity.
  Qed.

  (* ---------- MacroExpand iterates until MacroExpand1 reports nothing left ---------- *)
  Lemma uf_idem : forall t, unwrap_trivial false (unwrap_trivial false t) = unwrap_trivial false t.
  Proof.
    induction t as [i tg a k IHk|i s a k _] using tree_ind'.
    - destruct tg; try reflexivity;
        (destruct k as [|[c|] [|? ?]]; try reflexivity; inversion IHk; subst; simpl in *; assumption).
    - destruct s; try reflexivity. destruct k as [|c [|? ?]]; reflexivity.
  Qed.

  Lemma macro_expand1_stable : forall t t1, macro_expand1 t = Ok (t1, false) -> macro_expand1 t1 = Ok (t1, false).
  Proof.
    intros t t1 H. unfold Model.macro_expand1 in *.
    destruct (unwrap_trivial false t) as [i tg a k|i s a k] eqn:E.
    - inversion H; subst t1. assert (E2 := uf_idem t). rewrite E in E2. rewrite E2. reflexivity.
    - inv_bind H. destruct a0 as [outs ex]. destruct ex; simpl in Hk.
      + destruct outs; inversion Hk.
      + inversion Hk; subst t1. assert (E2 := uf_idem t). rewrite E in E2. rewrite E2. rewrite Hb. reflexivity.
  Qed.

  Lemma macro_expand_fixpoint : forall f t t' b, macro_expand f t = Ok (t', b) -> macro_expand1 t' = Ok (t', false).
  Proof.
    induction f as [|f IH]; intros t t' b H; simpl in H; [discriminate|].
    inv_bind H. destruct a as [t1 ex]. destruct ex.
    - inv_bind Hk. inversion Hk0; subst. destruct a as [t2 b2]. simpl. eapply IH; eauto.
    - inversion Hk; subst. eapply macro_expand1_stable; eauto.
  Qed.

  (* ---------- ~quote outside any quasiquote is a barrier ---------- *)
  Lemma quote_untouched : forall f i ops k ks,
    walk (S (S f)) 0 (Node i TUnaryExpr (QUOTE :: ops) (k :: ks)) = Ok (Node i TUnaryExpr (QUOTE :: ops) (k :: ks), false).
  Proof. intros. reflexivity. Qed.

  (* ---------- inside a quasiquote (depth >= 1) the walk never consults the macro table at that level ---------- *)
  Lemma leaf_untouched : forall f qd t, size0 t = true -> walk (S f) qd t = Ok (t, false).
  Proof. intros f qd t H. simpl. rewrite H. reflexivity. Qed.
End Proofs.

(* C20 — executable model of macro expansion over Common.Rose trees (shares the ast2 / base models of C21.Model).
   Modelled code (fast/macroexpand.go; classic/macroexpand.go is the same algorithm line by line):
     Comp.macroExpandCodewalk  -> walk        (pre-order walk, quasiquote depth, QUOTE barrier, ~macro block-in-expression)
     Comp.MacroExpand          -> macro_expand (repeat MacroExpand1 until it reports no expansion; fuelled)
     Comp.MacroExpand1         -> macro_expand1 / scan (list scan, argNum following elements consumed, results spliced in order)
     Comp.extractMacroCall     -> macro_of
     base.UnwrapTrivialAst / UnwrapTrivialAstKeepBlocks -> C21.Model.unwrap_trivial true / false
   Macros are a Section table  name -> (number of parameters, function from argument trees to result values);
   a result value that is a block statement or a bare slice is spliced element by element (fixes/C20-1.diff).
   Definitions only. *)
From Coq Require Import List NArith ZArith Bool.
From Verif Require Import Common.Rose C21.Model.
Import ListNotations.
Open Scope Z_scope.

Section Model.
  Variable mk : N -> N.
  Variable macros : N -> option (nat * (list tree -> list tree)).

  (* extractMacroCall: the element, after UnwrapTrivialAst, is an identifier bound to a macro *)
  Definition macro_of (elt : tree) : option (nat * (list tree -> list tree)) :=
    match unwrap_trivial true elt with
    | Node _ TIdent (name :: _) _ => macros name
    | _ => None
    end.

  (* which result values are spread element by element: block statements and bare slices
     (code after fixes/C20-1.diff; before it every AstWithSlice, ReturnStmt and GenDecl included, was spread) *)
  Definition spread (r : tree) : bool :=
    match r with
    | Slice _ SBlock _ _ => true
    | Slice _ s _ _ => negb (stag_is_node s)
    | _ => false
    end.

  (* outs.Append(res) for every result value *)
  Fixpoint append_results (k : slot) (acc : list tree) (results : list tree) : res (list tree) :=
    match results with
    | [] => Ok acc
    | r :: rs =>
        if spread r
        then ys <- mapM (coerce mk k) (elems r) ;; append_results k (acc ++ ys) rs
        else y <- coerce mk k r ;; append_results k (acc ++ [y]) rs
    end.

  (* the scan loop of MacroExpand1; fuel bounds the number of iterations (at most one per element) *)
  Fixpoint scan (fuel : nat) (k : slot) (elts : list tree) (acc : list tree) (expanded : bool)
    : res (list tree * bool) :=
    match fuel with
    | O => OutOfFuel
    | S f =>
        match elts with
        | [] => Ok (acc, expanded)
        | elt :: rest =>
            match macro_of elt with
            | None => y <- coerce mk k elt ;; scan f k rest (acc ++ [y]) expanded
            | Some (argn, fn) =>
                if (length rest <? argn)%nat then Err     (* "not enough arguments for macroexpansion" *)
                else
                  let args := firstn argn rest in
                  if forallb is_node args then
                    acc' <- append_results k acc (fn args) ;;
                    scan f k (skipn argn rest) acc' true
                  else Err
            end
        end
    end.

  Definition empty_stmt0 : tree := Node (fid mk) TEmptyStmt [0%N] [].

  (* MacroExpand1 *)
  Definition macro_expand1 (t : tree) : res (tree * bool) :=
    let t1 := unwrap_trivial false t in
    match t1 with
    | Slice i s a kids =>
        r <- scan (S (length kids)) (slot_of_stag s) kids [] false ;;
        let '(outs, expanded) := r in
        if negb expanded then Ok (t1, false)
        else match outs with
             | [] => Ok (empty_stmt0, true)
             | _ => Ok (unwrap_trivial true (Slice (mk i) s a outs), true)
             end
    | _ => Ok (t1, false)
    end.

  (* MacroExpand *)
  Fixpoint macro_expand (fuel : nat) (t : tree) : res (tree * bool) :=
    match fuel with
    | O => OutOfFuel
    | S f =>
        r <- macro_expand1 t ;;
        let '(t1, expanded) := r in
        if expanded then r2 <- macro_expand f t1 ;; Ok (fst r2, true)
        else Ok (t1, false)
    end.

  Definition size0 (t : tree) : bool := match size_of t with O => true | _ => false end.

  (* macroExpandCodewalk; the result of a nil / leaf input is the input itself *)
  Fixpoint walk (fuel : nat) (qd : Z) (t : tree) : res (tree * bool) :=
    match fuel with
    | O => OutOfFuel
    | S f =>
        if size0 t then Ok (t, false)
        else
          r0 <- (if qd <=? 0 then macro_expand f t else Ok (t, false)) ;;
          let '(t0, any) := r0 in
          let t1 := unwrap_trivial true t0 in
          let recurse :=
            match t1 with
            | Node i tg a kids =>
                r <- mapMi (fun idx o =>
                              match o with
                              | None => Ok (None, false)
                              | Some c =>
                                  let c1 := unwrap_trivial true c in
                                  r <- (if size0 c1 then Ok (c1, false) else walk f qd c1) ;;
                                  y <- coerce mk (slot_of tg idx) (fst r) ;; Ok (Some y, snd r)
                              end) 0%nat kids ;;
                Ok (Node (mk i) tg a (map fst r), any || existsb snd r)
            | Slice i s a kids =>
                r <- mapM (fun c =>
                             let c1 := unwrap_trivial true c in
                             r <- (if size0 c1 then Ok (c1, false) else walk f qd c1) ;;
                             y <- coerce mk (slot_of_stag s) (fst r) ;; Ok (y, snd r)) kids ;;
                Ok (Slice (mk i) s a (map fst r), any || existsb snd r)
            end in
          match t1 with
          | Node _ TUnaryExpr (op :: _) _ =>
              let inner (qd' : Z) : res (tree * bool) :=
                match qbody t1 with
                | None => Err
                | Some b =>
                    r <- walk f qd' (unwrap_trivial true b) ;;
                    if N.eqb op MACRO then Ok r
                    else if snd r
                         then (if is_node (fst r) then q <- make_quote mk op (Some (fst r)) ;; Ok (q, true) else Err)
                         else Ok (t1, false)
                end in
              if N.eqb op MACRO then inner qd
              else if N.eqb op QUOTE then (if qd =? 0 then Ok (t1, any) else inner qd)
              else if N.eqb op QUASIQUOTE then inner (qd + 1)
              else if is_unq op then inner (qd - 1)
              else recurse
          | _ => recurse
          end
    end.

  (* ---------- SPEC for macro-free code: what the walk strips ----------
     ParenExpr / ExprStmt / DeclStmt wrappers and one-statement blocks whose statement is not a declaration or a :=
     are removed wherever the walk looks (each is put back by the Set coercion when the slot needs a statement or a
     block); a ~macro block-in-expression is replaced by its content; quote-like forms are returned untouched. *)
  Fixpoint strip (fuel : nat) (t : tree) : res (tree * bool) :=
    match fuel with
    | O => OutOfFuel
    | S f =>
        if size0 t then Ok (t, false)
        else
          let t1 := unwrap_trivial true t in
          let sub (slot_ : slot) (c : tree) : res tree :=
            let c1 := unwrap_trivial true c in
            r <- (if size0 c1 then Ok (c1, false) else strip f c1) ;;
            coerce mk slot_ (fst r) in
          let recurse :=
            match t1 with
            | Node i tg a kids =>
                r <- mapMi (fun idx o => match o with
                                         | None => Ok None
                                         | Some c => y <- sub (slot_of tg idx) c ;; Ok (Some y)
                                         end) 0%nat kids ;;
                Ok (Node (mk i) tg a r, false)
            | Slice i s a kids =>
                r <- mapM (sub (slot_of_stag s)) kids ;; Ok (Slice (mk i) s a r, false)
            end in
          match t1 with
          | Node _ TUnaryExpr (op :: _) _ =>
              if N.eqb op MACRO then
                match qbody t1 with
                | None => Err
                | Some b => strip f (unwrap_trivial true b)
                end
              else if is_quote_op op then
                match qbody t1 with None => Err | Some _ => Ok (t1, false) end
              else recurse
          | _ => recurse
          end
    end.
End Model.

(* ---------- correspondence support ---------- *)
Record case := mkCase {
  c_idx : Z;
  c_in : tree;
  c_fast : option tree;       (* observed output of Comp.MacroExpandNodeCodewalk (None = panic) *)
  c_classic : option tree;    (* observed output of classic Env.MacroExpandCodewalk *)
  c_exp : bool                (* observed anythingExpanded of the fast interpreter *)
}.

Definition same_out (m : res (tree * bool)) (obs : option tree) : bool :=
  match m, obs with
  | Ok (x, _), Some y => tree_eqb (canon x) (canon y)
  | Err, None => true
  | _, _ => false
  end.

Definition walk_fuel (t : tree) : nat := (3 * height t + 40)%nat.

Definition case_ok (macros : N -> option (nat * (list tree -> list tree))) (c : case) : bool :=
  let m := walk mk0 macros (walk_fuel (c_in c)) 0 (c_in c) in
  same_out m (c_fast c) && same_out m (c_classic c) &&
  match m with Ok (_, e) => Bool.eqb e (c_exp c) | _ => true end.

Definition mismatches (macros : N -> option (nat * (list tree -> list tree))) (cs : list case) : list Z :=
  map c_idx (filter (fun c => negb (case_ok macros c)) cs).

(* C20 — deeper lemmas: the whole walk (macroExpandCodewalk) on macro-free code equals the executable spec [strip],
   and inside a quasiquote the macro table is consulted only where the depth has been brought back to <= 0 by
   ~unquote / ~unquote_splice.  Predicates over sub-trees ([AllSub], [Under]) + one-step unfolding lemmas. *)
From Coq Require Import List NArith ZArith Bool Lia.
From Verif Require Import Common.Rose C21.Model C21.Proof C20.Model C20.Proof.
Import ListNotations.
Open Scope Z_scope.

(* ---------- predicates over all sub-trees ---------- *)
(* quasiquote depth at which the walk visits the children of t when it visits t at depth qd *)
Definition depth_in (t : tree) (qd : Z) : Z :=
  match unary_op t with
  | Some op => if N.eqb op QUASIQUOTE then qd + 1 else if is_unq op then qd - 1 else qd
  | None => qd
  end.

(* P holds of every sub-tree of t (t included) *)
Fixpoint AllSub (P : tree -> Prop) (t : tree) {struct t} : Prop :=
  P t /\
  match t with
  | Node _ _ _ k =>
      (fix all (l : list (option tree)) : Prop :=
         match l with [] => True | Some x :: l' => AllSub P x /\ all l' | None :: l' => all l' end) k
  | Slice _ _ _ k =>
      (fix all (l : list tree) : Prop := match l with [] => True | x :: l' => AllSub P x /\ all l' end) k
  end.

(* P holds of every sub-tree of t that lies at quasiquote depth <= 0, t itself being at depth qd:
   ~quasiquote raises the depth of what is below it by one, ~unquote / ~unquote_splice lower it by one *)
Fixpoint Under (P : tree -> Prop) (t : tree) (qd : Z) {struct t} : Prop :=
  (qd <= 0 -> P t) /\
  match t with
  | Node _ _ _ k =>
      (fix all (l : list (option tree)) : Prop :=
         match l with
         | [] => True
         | Some x :: l' => Under P x (depth_in t qd) /\ all l'
         | None :: l' => all l'
         end) k
  | Slice _ _ _ k =>
      (fix all (l : list tree) : Prop := match l with [] => True | x :: l' => Under P x qd /\ all l' end) k
  end.

Lemma AllSub_here : forall (P : tree -> Prop) t, AllSub P t -> P t.
Proof. destruct t; simpl; tauto. Qed.

Lemma AllSub_kid_node : forall (P : tree -> Prop) i tg a k x, AllSub P (Node i tg a k) -> In (Some x) k -> AllSub P x.
Proof.
  intros P i tg a k x [_ H]. induction k as [|o k IH]; simpl; [tauto|].
  intros [E|Hin].
  - subst o. tauto.
  - destruct o; apply IH; tauto.
Qed.

Lemma AllSub_kid_slice : forall (P : tree -> Prop) i s a k x, AllSub P (Slice i s a k) -> In x k -> AllSub P x.
Proof.
  intros P i s a k x [_ H]. induction k as [|o k IH]; simpl; [tauto|].
  intros [E|Hin]; [subst; tauto | apply IH; tauto].
Qed.

Lemma AllSub_node_intro : forall (P : tree -> Prop) i tg a k,
  P (Node i tg a k) -> (forall x, In (Some x) k -> AllSub P x) -> AllSub P (Node i tg a k).
Proof.
  intros P i tg a k H0 H. split; [exact H0|]. clear H0.
  induction k as [|o k IH]; simpl; [exact I|].
  destruct o as [x|].
  - split; [apply H; simpl; auto | apply IH; intros; apply H; simpl; auto].
  - apply IH; intros; apply H; simpl; auto.
Qed.

Lemma AllSub_slice_intro : forall (P : tree -> Prop) i s a k,
  P (Slice i s a k) -> (forall x, In x k -> AllSub P x) -> AllSub P (Slice i s a k).
Proof.
  intros P i s a k H0 H. split; [exact H0|]. clear H0.
  induction k as [|x k IH]; simpl; [exact I|].
  split; [apply H; simpl; auto | apply IH; intros; apply H; simpl; auto].
Qed.

Lemma Under_here : forall (P : tree -> Prop) t qd, Under P t qd -> qd <= 0 -> P t.
Proof. destruct t; simpl; tauto. Qed.

Lemma Under_kid_node : forall (P : tree -> Prop) i tg a k qd x,
  Under P (Node i tg a k) qd -> In (Some x) k -> Under P x (depth_in (Node i tg a k) qd).
Proof.
  intros P i tg a k qd x [_ H]. generalize dependent (depth_in (Node i tg a k) qd). intros d H.
  induction k as [|o k IH]; simpl; [tauto|].
  intros [E|Hin].
  - subst o. tauto.
  - destruct o; apply IH; tauto.
Qed.

Lemma Under_kid_slice : forall (P : tree -> Prop) i s a k qd x, Under P (Slice i s a k) qd -> In x k -> Under P x qd.
Proof.
  intros P i s a k qd x [_ H]. induction k as [|o k IH]; simpl; [tauto|].
  intros [E|Hin]; [subst; tauto | apply IH; tauto].
Qed.

Lemma Under_node_intro : forall (P : tree -> Prop) i tg a k qd,
  (qd <= 0 -> P (Node i tg a k)) ->
  (forall x, In (Some x) k -> Under P x (depth_in (Node i tg a k) qd)) -> Under P (Node i tg a k) qd.
Proof.
  intros P i tg a k qd H0 H. split; [exact H0|]. clear H0.
  generalize dependent (depth_in (Node i tg a k) qd). intros d H.
  induction k as [|o k IH]; simpl; [exact I|].
  destruct o as [x|].
  - split; [apply H; simpl; auto | apply IH; intros; apply H; simpl; auto].
  - apply IH; intros; apply H; simpl; auto.
Qed.

Lemma Under_slice_intro : forall (P : tree -> Prop) i s a k qd,
  (qd <= 0 -> P (Slice i s a k)) -> (forall x, In x k -> Under P x qd) -> Under P (Slice i s a k) qd.
Proof.
  intros P i s a k qd H0 H. split; [exact H0|]. clear H0.
  induction k as [|x k IH]; simpl; [exact I|].
  split; [apply H; simpl; auto | apply IH; intros; apply H; simpl; auto].
Qed.

Lemma okid_In : forall (Q : tree -> Prop) k x, Forall (okid Q) k -> In (Some x) k -> Q x.
Proof. intros Q k x H Hin. rewrite Forall_forall in H. exact (H _ Hin). Qed.

(* everything everywhere implies everything at depth <= 0 *)
Lemma AllSub_Under : forall (P Q : tree -> Prop), (forall s, P s -> Q s) ->
  forall t qd, AllSub P t -> Under Q t qd.
Proof.
  intros P Q HPQ. induction t as [i tg a k IHk|i s a k IHk] using tree_ind'; intros qd H.
  - apply Under_node_intro; [intros _; apply HPQ; exact (AllSub_here _ _ H)|].
    intros x Hin. apply (okid_In _ _ _ IHk Hin). eapply AllSub_kid_node; eauto.
  - apply Under_slice_intro; [intros _; apply HPQ; exact (AllSub_here _ _ H)|].
    intros x Hin. rewrite Forall_forall in IHk. apply (IHk _ Hin). eapply AllSub_kid_slice; eauto.
Qed.

Lemma AllSub_and : forall (P Q : tree -> Prop) t, AllSub P t -> AllSub Q t -> AllSub (fun s => P s /\ Q s) t.
Proof.
  intros P Q. induction t as [i tg a k IHk|i s a k IHk] using tree_ind'; intros H1 H2.
  - apply AllSub_node_intro; [split; eapply AllSub_here; eauto|].
    intros x Hin. apply (okid_In _ _ _ IHk Hin); eapply AllSub_kid_node; eauto.
  - apply AllSub_slice_intro; [split; eapply AllSub_here; eauto|].
    intros x Hin. rewrite Forall_forall in IHk. apply (IHk _ Hin); eapply AllSub_kid_slice; eauto.
Qed.

Lemma AllSub_all : forall (P : tree -> Prop), (forall s, P s) -> forall t, AllSub P t.
Proof.
  intros P HP. induction t as [i tg a k IHk|i s a k IHk] using tree_ind'.
  - apply AllSub_node_intro; [apply HP|]. intros x Hin. exact (okid_In _ _ _ IHk Hin).
  - apply AllSub_slice_intro; [apply HP|]. intros x Hin. rewrite Forall_forall in IHk. exact (IHk _ Hin).
Qed.

(* ---------- unwrap_trivial returns a sub-tree reached through depth-neutral wrappers ---------- *)
Lemma Under_unwrap : forall (P : tree -> Prop) uw t qd, Under P t qd -> Under P (unwrap_trivial uw t) qd.
Proof.
  intros P uw. induction t as [i tg a k IHk|i s a k IHk] using tree_ind'; intros qd H.
  - destruct tg; try exact H;
      (destruct k as [|[c|] [|? ?]]; try exact H; simpl;
       inversion IHk; subst; apply H2;
       exact (Under_kid_node _ _ _ _ _ _ _ H (or_introl eq_refl))).
  - destruct s; try exact H. destruct k as [|c [|? ?]]; try exact H.
    simpl. destruct uw; [|exact H]. destruct (is_decl_or_define c); [exact H|].
    inversion IHk; subst. apply H2. exact (Under_kid_slice _ _ _ _ _ _ _ H (or_introl eq_refl)).
Qed.

Lemma AllSub_unwrap : forall (P : tree -> Prop) uw t, AllSub P t -> AllSub P (unwrap_trivial uw t).
Proof.
  intros P uw. induction t as [i tg a k IHk|i s a k IHk] using tree_ind'; intros H.
  - destruct tg; try exact H;
      (destruct k as [|[c|] [|? ?]]; try exact H; simpl;
       inversion IHk; subst; apply H2;
       exact (AllSub_kid_node _ _ _ _ _ _ H (or_introl eq_refl))).
  - destruct s; try exact H. destruct k as [|c [|? ?]]; try exact H.
    simpl. destruct uw; [|exact H]. destruct (is_decl_or_define c); [exact H|].
    inversion IHk; subst. apply H2. exact (AllSub_kid_slice _ _ _ _ _ _ H (or_introl eq_refl)).
Qed.

(* UnwrapTrivialAst after UnwrapTrivialAstKeepBlocks = UnwrapTrivialAst *)
Lemma ut_uf : forall t, unwrap_trivial true (unwrap_trivial false t) = unwrap_trivial true t.
Proof.
  induction t as [i tg a k IHk|i s a k _] using tree_ind'.
  - destruct tg; try reflexivity;
      (destruct k as [|[c|] [|? ?]]; try reflexivity; inversion IHk; subst; simpl in *; assumption).
  - destruct s; try reflexivity. destruct k as [|c [|? ?]]; reflexivity.
Qed.

(* shape of a form with a body *)
Lemma qbody_shape : forall t b, qbody t = Some b ->
  exists i a j a' x, t = Node i TUnaryExpr a [Some (Node j TFuncLit a' [x; Some b])].
Proof.
  intros t b H. unfold qbody in H.
  repeat match type of H with
         | context [match ?v with _ => _ end] => destruct v; try discriminate
         end.
  inversion H; subst. eauto 10.
Qed.

Lemma Under_qbody : forall (P : tree -> Prop) t b qd, Under P t qd -> qbody t = Some b -> Under P b (depth_in t qd).
Proof.
  intros P t b qd H Hb. destruct (qbody_shape _ _ Hb) as (i & a & j & a' & x & E). subst t.
  assert (H1 := Under_kid_node _ _ _ _ _ _ _ H (or_introl eq_refl)).
  exact (Under_kid_node _ _ _ _ _ _ _ H1 (or_intror (or_introl eq_refl))).
Qed.

Lemma AllSub_qbody : forall (P : tree -> Prop) t b, AllSub P t -> qbody t = Some b -> AllSub P b.
Proof.
  intros P t b H Hb. destruct (qbody_shape _ _ Hb) as (i & a & j & a' & x & E). subst t.
  assert (H1 := AllSub_kid_node _ _ _ _ _ _ H (or_introl eq_refl)).
  exact (AllSub_kid_node _ _ _ _ _ _ H1 (or_intror (or_introl eq_refl))).
Qed.

(* ---------- one-step unfolding of walk and strip, with the ~op test as [unary_op] ---------- *)
Section Unfold.
  Variable mk : N -> N.

  (* the Recurse part of macroExpandCodewalk: rec = the recursive call at the same depth *)
  Definition recurse_of (rec : tree -> res (tree * bool)) (any : bool) (t1 : tree) : res (tree * bool) :=
    match t1 with
    | Node i tg a kids =>
        r <- mapMi (fun idx o =>
                      match o with
                      | None => Ok (None, false)
                      | Some c =>
                          let c1 := unwrap_trivial true c in
                          r <- (if size0 c1 then Ok (c1, false) else rec c1) ;;
                          y <- coerce mk (slot_of tg idx) (fst r) ;; Ok (Some y, snd r)
                      end) 0%nat kids ;;
        Ok (Node (mk i) tg a (map fst r), any || existsb snd r)
    | Slice i s a kids =>
        r <- mapM (fun c =>
                     let c1 := unwrap_trivial true c in
                     r <- (if size0 c1 then Ok (c1, false) else rec c1) ;;
                     y <- coerce mk (slot_of_stag s) (fst r) ;; Ok (y, snd r)) kids ;;
        Ok (Slice (mk i) s a (map fst r), any || existsb snd r)
    end.

  (* the quote-like part: rec = the recursive call on the body at the new depth *)
  Definition inner_of (rec : tree -> res (tree * bool)) (op : N) (t1 : tree) : res (tree * bool) :=
    match qbody t1 with
    | None => Err
    | Some b =>
        r <- rec (unwrap_trivial true b) ;;
        if N.eqb op MACRO then Ok r
        else if snd r
             then (if is_node (fst r) then q <- make_quote mk op (Some (fst r)) ;; Ok (q, true) else Err)
             else Ok (t1, false)
    end.

  Definition unary_of (rec : Z -> tree -> res (tree * bool)) (any : bool) (op : N) (t1 : tree) (qd : Z)
    : res (tree * bool) :=
    if N.eqb op MACRO then inner_of (rec qd) op t1
    else if N.eqb op QUOTE then (if qd =? 0 then Ok (t1, any) else inner_of (rec qd) op t1)
    else if N.eqb op QUASIQUOTE then inner_of (rec (qd + 1)) op t1
    else if is_unq op then inner_of (rec (qd - 1)) op t1
    else recurse_of (rec qd) any t1.

  Definition after_expand (rec : Z -> tree -> res (tree * bool)) (qd : Z) (r0 : tree * bool) : res (tree * bool) :=
    let t1 := unwrap_trivial true (fst r0) in
    match unary_op t1 with
    | Some op => unary_of rec (snd r0) op t1 qd
    | None => recurse_of (rec qd) (snd r0) t1
    end.

  Lemma walk_S : forall macros f qd t,
    walk mk macros (S f) qd t =
    if size0 t then Ok (t, false)
    else r0 <- (if qd <=? 0 then macro_expand mk macros f t else Ok (t, false)) ;;
         after_expand (walk mk macros f) qd r0.
  Proof.
    intros macros f qd t. simpl. destruct (size0 t); [reflexivity|].
    destruct (if qd <=? 0 then macro_expand mk macros f t else Ok (t, false)) as [[t0 any]| |];
      [|reflexivity|reflexivity].
    unfold bind, after_expand, fst, snd.
    destruct (unwrap_trivial true t0) as [i tg a k|i s a k]; [|reflexivity].
    destruct tg; try reflexivity. destruct a; reflexivity.
  Qed.

  Definition ssub (rec : tree -> res (tree * bool)) (slot_ : slot) (c : tree) : res tree :=
    let c1 := unwrap_trivial true c in
    r <- (if size0 c1 then Ok (c1, false) else rec c1) ;;
    coerce mk slot_ (fst r).

  Definition srecurse_of (rec : tree -> res (tree * bool)) (t1 : tree) : res (tree * bool) :=
    match t1 with
    | Node i tg a kids =>
        r <- mapMi (fun idx o => match o with
                                 | None => Ok None
                                 | Some c => y <- ssub rec (slot_of tg idx) c ;; Ok (Some y)
                                 end) 0%nat kids ;;
        Ok (Node (mk i) tg a r, false)
    | Slice i s a kids =>
        r <- mapM (ssub rec (slot_of_stag s)) kids ;; Ok (Slice (mk i) s a r, false)
    end.

  Lemma strip_S : forall f t,
    strip mk (S f) t =
    if size0 t then Ok (t, false)
    else let t1 := unwrap_trivial true t in
         match unary_op t1 with
         | Some op =>
             if N.eqb op MACRO then
               match qbody t1 with None => Err | Some b => strip mk f (unwrap_trivial true b) end
             else if is_quote_op op then
               match qbody t1 with None => Err | Some _ => Ok (t1, false) end
             else srecurse_of (strip mk f) t1
         | None => srecurse_of (strip mk f) t1
         end.
  Proof.
    intros f t. simpl. destruct (size0 t); [reflexivity|].
    destruct (unwrap_trivial true t) as [i tg a k|i s a k]; [|reflexivity].
    destruct tg; try reflexivity. destruct a; reflexivity.
  Qed.
End Unfold.

(* ---------- generic plumbing ---------- *)
Lemma mapMi_proj : forall (A B : Type) (g : nat -> A -> res (B * bool)) (h : nat -> A -> res B) l i rs,
  (forall j x p, In x l -> g j x = Ok p -> h j x = Ok (fst p) /\ snd p = false) ->
  mapMi g i l = Ok rs -> mapMi h i l = Ok (map fst rs) /\ existsb snd rs = false.
Proof.
  induction l as [|x l IH]; intros i rs Hgh H; simpl in *.
  - inversion H; subst. split; reflexivity.
  - inv_bind H. inv_bind Hk. inversion Hk0; subst.
    destruct (Hgh i x a (or_introl eq_refl) Hb) as [E1 E2]. rewrite E1. simpl.
    destruct (IH (S i) a0 (fun j y p Hin => Hgh j y p (or_intror Hin)) Hb0) as [E3 E4].
    rewrite E3. simpl. rewrite E2, E4. split; reflexivity.
Qed.

Lemma mapM_proj : forall (A B : Type) (g : A -> res (B * bool)) (h : A -> res B) l rs,
  (forall x p, In x l -> g x = Ok p -> h x = Ok (fst p) /\ snd p = false) ->
  mapM g l = Ok rs -> mapM h l = Ok (map fst rs) /\ existsb snd rs = false.
Proof.
  induction l as [|x l IH]; intros rs Hgh H; simpl in *.
  - inversion H; subst. split; reflexivity.
  - inv_bind H. inv_bind Hk. inversion Hk0; subst.
    destruct (Hgh x a (or_introl eq_refl) Hb) as [E1 E2]. rewrite E1. simpl.
    destruct (IH a0 (fun y p Hin => Hgh y p (or_intror Hin)) Hb0) as [E3 E4].
    rewrite E3. simpl. rewrite E2, E4. split; reflexivity.
Qed.

Lemma depth_in_op : forall t op qd, unary_op t = Some op ->
  depth_in t qd = if N.eqb op QUASIQUOTE then qd + 1 else if is_unq op then qd - 1 else qd.
Proof. intros t op qd H. unfold depth_in. rewrite H. reflexivity. Qed.

Lemma depth_in_none : forall t qd, unary_op t = None -> depth_in t qd = qd.
Proof. intros t qd H. unfold depth_in. rewrite H. reflexivity. Qed.

(* a ~quote form has a body (true of every parsed tree: the parser builds op{...} as op(func(){...})) *)
Definition quote_ok (s : tree) : Prop :=
  forall op, unary_op s = Some op -> N.eqb op QUOTE = true -> qbody s <> None.

(* ---------- walk = strip on macro-free code ---------- *)
Section Identity.
  Variable mk : N -> N.
  Variable macros : N -> option (nat * (list tree -> list tree)).

  Notation macro_of := (macro_of macros).
  Notation macro_expand1 := (macro_expand1 mk macros).
  Notation macro_expand := (macro_expand mk macros).
  Notation walk := (walk mk macros).
  Notation strip := (strip mk).

  Definition Good (s : tree) : Prop := macro_of s = None /\ quote_ok s.

  Lemma macro_expand1_free_local : forall t r,
    (forall e, In e (elems (unwrap_trivial false t)) -> macro_of e = None) ->
    macro_expand1 t = Ok r -> r = (unwrap_trivial false t, false).
  Proof.
    intros t r Hfree H. unfold Model.macro_expand1 in H.
    destruct (unwrap_trivial false t) as [i tg a k|i s a k]; [inversion H; reflexivity|].
    inv_bind H. destruct a0 as [outs ex].
    destruct (scan_macro_free _ _ _ _ _ _ _ Hfree Hb) as [E _]. subst ex.
    simpl in Hk. inversion Hk. reflexivity.
  Qed.

  Lemma macro_expand_free_local : forall f t r,
    (forall e, In e (elems (unwrap_trivial false t)) -> macro_of e = None) ->
    macro_expand f t = Ok r -> r = (unwrap_trivial false t, false).
  Proof.
    intros f t r Hfree H. destruct f as [|f]; [discriminate|]. simpl in H.
    inv_bind H. rewrite (macro_expand1_free_local _ _ Hfree Hb) in Hk. simpl in Hk. inversion Hk. reflexivity.
  Qed.

  Lemma Under_elems_free : forall (P : tree -> Prop) t qd, Under P t qd -> qd <= 0 ->
    forall e, In e (elems (unwrap_trivial false t)) -> P e.
  Proof.
    intros P t qd H Hq e Hin. apply (Under_unwrap P false) in H.
    destruct (unwrap_trivial false t) as [i tg a k|i s a k]; [destruct Hin|].
    simpl in Hin. exact (Under_here _ _ _ (Under_kid_slice _ _ _ _ _ _ _ H Hin) Hq).
  Qed.

  Definition IHwalk (f : nat) : Prop :=
    forall qd t r, Under Good t qd -> walk f qd t = Ok r -> strip f t = Ok r /\ snd r = false.

  Lemma kid_step_strip : forall f qd c1 r, IHwalk f -> Under Good c1 qd ->
    (if size0 c1 then Ok (c1, false) else walk f qd c1) = Ok r ->
    (if size0 c1 then Ok (c1, false) else strip f c1) = Ok r /\ snd r = false.
  Proof.
    intros f qd c1 r IH HU H. destruct (size0 c1).
    - inversion H; subst. split; reflexivity.
    - exact (IH _ _ _ HU H).
  Qed.

  Lemma recurse_strip : forall f qd any t1 r, IHwalk f -> Under Good t1 qd -> depth_in t1 qd = qd -> any = false ->
    recurse_of mk (walk f qd) any t1 = Ok r -> srecurse_of mk (strip f) t1 = Ok r /\ snd r = false.
  Proof.
    intros f qd any t1 r IH HU Hd Hany H. subst any.
    destruct t1 as [i tg a k|i s a k]; unfold recurse_of in H; unfold srecurse_of; inv_bind H.
    - apply mapMi_proj with (h := fun idx o => match o with
                                               | None => Ok None
                                               | Some c => y <- ssub mk (strip f) (slot_of tg idx) c ;; Ok (Some y)
                                               end) in Hb.
      + destruct Hb as [E1 E2]. rewrite E1. simpl. rewrite E2 in Hk. inversion Hk. split; reflexivity.
      + intros j o p Hin Hg. destruct o as [c|]; [|inversion Hg; split; reflexivity].
        cbv zeta in Hg. inv_bind Hg. inv_bind Hk0. inversion Hk1; subst p. simpl.
        assert (HU' : Under Good (unwrap_trivial true c) qd).
        { apply Under_unwrap. rewrite <- Hd. eapply Under_kid_node; eauto. }
        destruct (kid_step_strip _ _ _ _ IH HU' Hb0) as [E1 E2].
        unfold ssub. cbv zeta. rewrite E1. simpl. rewrite Hb1. simpl. split; [reflexivity|exact E2].
    - apply mapM_proj with (h := ssub mk (strip f) (slot_of_stag s)) in Hb.
      + destruct Hb as [E1 E2]. rewrite E1. simpl. rewrite E2 in Hk. inversion Hk. split; reflexivity.
      + intros c p Hin Hg.
        cbv zeta in Hg. inv_bind Hg. inv_bind Hk0. inversion Hk1; subst p. simpl.
        assert (HU' : Under Good (unwrap_trivial true c) qd).
        { apply Under_unwrap. eapply Under_kid_slice; eauto. }
        destruct (kid_step_strip _ _ _ _ IH HU' Hb0) as [E1 E2].
        unfold ssub. cbv zeta. rewrite E1. simpl. rewrite Hb1. split; [reflexivity|exact E2].
  Qed.

  (* a quote-like form other than ~macro whose body, walked at its depth, is only stripped: returned as it is *)
  Lemma inner_strip : forall f qd' op t1 r, IHwalk f -> N.eqb op MACRO = false ->
    (forall b, qbody t1 = Some b -> Under Good b qd') ->
    inner_of mk (walk f qd') op t1 = Ok r ->
    match qbody t1 with None => Err | Some _ => Ok (t1, false) end = Ok r /\ snd r = false.
  Proof.
    intros f qd' op t1 r IH Hm HU H. unfold inner_of in H.
    destruct (qbody t1) as [b|]; [|discriminate].
    inv_bind H. rewrite Hm in Hk.
    destruct (IH _ _ _ (Under_unwrap _ true _ _ (HU b eq_refl)) Hb) as [_ E]. rewrite E in Hk.
    inversion Hk. split; reflexivity.
  Qed.

  Lemma walk_strip : forall f, IHwalk f.
  Proof.
    induction f as [|f IH]; intros qd t r HU H; [discriminate|].
    rewrite walk_S in H. rewrite strip_S.
    destruct (size0 t) eqn:Es; [inversion H; split; reflexivity|].
    inv_bind H.
    assert (Ea : unwrap_trivial true (fst a) = unwrap_trivial true t /\ snd a = false).
    { destruct (qd <=? 0) eqn:Eq.
      - apply Z.leb_le in Eq.
        rewrite (macro_expand_free_local _ _ _
                   (fun e Hin => proj1 (Under_elems_free _ _ _ HU Eq e Hin)) Hb).
        simpl. split; [apply ut_uf|reflexivity].
      - inversion Hb; subst a. split; reflexivity. }
    destruct Ea as [Ea1 Ea2]. unfold after_expand in Hk. rewrite Ea1, Ea2 in Hk. cbv zeta in *.
    apply (Under_unwrap _ true) in HU.
    remember (unwrap_trivial true t) as t1 eqn:Et1. clear Et1 Hb Ea1 Ea2 Es a t.
    destruct (unary_op t1) as [op|] eqn:Eu.
    - unfold unary_of in Hk.
      assert (Hbody : forall b, qbody t1 = Some b -> Under Good b (depth_in t1 qd))
        by (intros b Hqb; exact (Under_qbody _ _ _ _ HU Hqb)).
      rewrite (depth_in_op _ _ qd Eu) in Hbody.
      destruct (N.eqb op MACRO) eqn:Em.
      { apply N.eqb_eq in Em. subst op. unfold inner_of in Hk.
        destruct (qbody t1) as [b|] eqn:Eb; [|discriminate].
        inv_bind Hk. simpl in Hk0. inversion Hk0; subst a.
        apply (IH qd); [|exact Hb]. apply Under_unwrap. exact (Hbody b eq_refl). }
      unfold is_quote_op.
      destruct (N.eqb op QUOTE) eqn:Eq.
      { simpl. apply N.eqb_eq in Eq. subst op. simpl in Hbody.
        destruct (qd =? 0) eqn:E0.
        - apply Z.eqb_eq in E0. subst qd.
          assert (Hq : qbody t1 <> None).
          { apply (proj2 (Under_here _ _ _ HU (Z.le_refl 0)) QUOTE Eu). reflexivity. }
          destruct (qbody t1); [|contradiction]. inversion Hk. split; reflexivity.
        - exact (inner_strip _ _ _ _ _ IH Em Hbody Hk). }
      destruct (N.eqb op QUASIQUOTE) eqn:Eqq.
      { simpl. exact (inner_strip _ _ _ _ _ IH Em Hbody Hk). }
      unfold is_unq in *. simpl.
      destruct (N.eqb op UNQUOTE || N.eqb op UNQUOTE_SPLICE) eqn:Eun.
      { exact (inner_strip _ _ _ _ _ IH Em Hbody Hk). }
      apply (recurse_strip f qd false t1 r IH HU); [|reflexivity|exact Hk].
      rewrite (depth_in_op _ _ qd Eu), Eqq. unfold is_unq. rewrite Eun. reflexivity.
    - apply (recurse_strip f qd false t1 r IH HU); [|reflexivity|exact Hk].
      apply depth_in_none; exact Eu.
  Qed.
End Identity.

(* ---------- more plumbing ---------- *)
Lemma mapMi_ext_in : forall (A B : Type) (g h : nat -> A -> res B) l i,
  (forall j x, In x l -> g j x = h j x) -> mapMi g i l = mapMi h i l.
Proof.
  induction l as [|x l IH]; intros i Hgh; simpl; [reflexivity|].
  rewrite (Hgh i x (or_introl eq_refl)). rewrite (IH (S i) (fun j y Hin => Hgh j y (or_intror Hin))). reflexivity.
Qed.

Lemma mapM_ext_in : forall (A B : Type) (g h : A -> res B) l,
  (forall x, In x l -> g x = h x) -> mapM g l = mapM h l.
Proof.
  induction l as [|x l IH]; intros Hgh; simpl; [reflexivity|].
  rewrite (Hgh x (or_introl eq_refl)). rewrite (IH (fun y Hin => Hgh y (or_intror Hin))). reflexivity.
Qed.

Lemma Under_weaken : forall (P Q : tree -> Prop), (forall s, P s -> Q s) ->
  forall t qd, Under P t qd -> Under Q t qd.
Proof.
  intros P Q HPQ. induction t as [i tg a k IHk|i s a k IHk] using tree_ind'; intros qd H.
  - apply Under_node_intro; [intros Hq; apply HPQ; exact (Under_here _ _ _ H Hq)|].
    intros x Hin. apply (okid_In _ _ _ IHk Hin). eapply Under_kid_node; eauto.
  - apply Under_slice_intro; [intros Hq; apply HPQ; exact (Under_here _ _ _ H Hq)|].
    intros x Hin. rewrite Forall_forall in IHk. apply (IHk _ Hin). eapply Under_kid_slice; eauto.
Qed.

Lemma AllSub_weaken : forall (P Q : tree -> Prop), (forall s, P s -> Q s) -> forall t, AllSub P t -> AllSub Q t.
Proof.
  intros P Q HPQ. induction t as [i tg a k IHk|i s a k IHk] using tree_ind'; intros H.
  - apply AllSub_node_intro; [apply HPQ; exact (AllSub_here _ _ H)|].
    intros x Hin. apply (okid_In _ _ _ IHk Hin). eapply AllSub_kid_node; eauto.
  - apply AllSub_slice_intro; [apply HPQ; exact (AllSub_here _ _ H)|].
    intros x Hin. rewrite Forall_forall in IHk. apply (IHk _ Hin). eapply AllSub_kid_slice; eauto.
Qed.

Lemma AllSub_sub : forall (P : tree -> Prop) t, AllSub P t -> AllSub (AllSub P) t.
Proof.
  intros P. induction t as [i tg a k IHk|i s a k IHk] using tree_ind'; intros H.
  - apply AllSub_node_intro; [exact H|].
    intros x Hin. apply (okid_In _ _ _ IHk Hin). eapply AllSub_kid_node; eauto.
  - apply AllSub_slice_intro; [exact H|].
    intros x Hin. rewrite Forall_forall in IHk. apply (IHk _ Hin). eapply AllSub_kid_slice; eauto.
Qed.

(* ---------- the macro table is consulted only at quasiquote depth <= 0 ---------- *)
Section Indep.
  Variable mk : N -> N.
  Variables m1 m2 : N -> option (nat * (list tree -> list tree)).

  (* s is a macro call in neither table *)
  Definition NoMac2 (s : tree) : Prop := macro_of m1 s = None /\ macro_of m2 s = None.

  Lemma scan_free_ext : forall f k elts acc ex,
    (forall e, In e elts -> NoMac2 e) -> scan mk m1 f k elts acc ex = scan mk m2 f k elts acc ex.
  Proof.
    induction f as [|f IH]; intros k elts acc ex Hfree; [reflexivity|].
    destruct elts as [|elt rest]; [reflexivity|]. simpl.
    destruct (Hfree elt (or_introl eq_refl)) as [E1 E2]. rewrite E1, E2.
    destruct (coerce mk k elt); simpl; try reflexivity.
    apply IH. intros e Hin. apply Hfree. simpl. auto.
  Qed.

  Lemma macro_expand_free_ext : forall f t,
    (forall e, In e (elems (unwrap_trivial false t)) -> NoMac2 e) ->
    macro_expand mk m1 f t = macro_expand mk m2 f t.
  Proof.
    intros f t Hfree. destruct f as [|f]; [reflexivity|]. simpl.
    assert (E : macro_expand1 mk m1 t = macro_expand1 mk m2 t).
    { unfold macro_expand1. destruct (unwrap_trivial false t) as [i tg a k|i s a k]; [reflexivity|].
      rewrite (scan_free_ext _ _ _ _ _ Hfree). reflexivity. }
    rewrite E. destruct (macro_expand1 mk m2 t) as [r| |] eqn:E2; try reflexivity.
    rewrite (macro_expand1_free_local mk m2 _ _ (fun e Hin => proj2 (Hfree e Hin)) E2). reflexivity.
  Qed.

  Definition IHrel (rec1 rec2 : Z -> tree -> res (tree * bool)) : Prop :=
    forall qd t, Under NoMac2 t qd -> rec1 qd t = rec2 qd t.

  Lemma kid_step_ext : forall (rec1 rec2 : tree -> res (tree * bool)) c1,
    rec1 c1 = rec2 c1 ->
    (if size0 c1 then Ok (c1, false) else rec1 c1) = (if size0 c1 then Ok (c1, false) else rec2 c1).
  Proof. intros rec1 rec2 c1 H. rewrite H. reflexivity. Qed.

  Lemma recurse_ext : forall rec1 rec2 any t1 qd, IHrel rec1 rec2 -> Under NoMac2 t1 qd -> depth_in t1 qd = qd ->
    recurse_of mk (rec1 qd) any t1 = recurse_of mk (rec2 qd) any t1.
  Proof.
    intros rec1 rec2 any t1 qd IH HU Hd.
    destruct t1 as [i tg a k|i s a k]; unfold recurse_of.
    - match goal with |- bind (mapMi ?g _ _) _ = bind (mapMi ?h _ _) _ =>
        rewrite (mapMi_ext_in _ _ g h k 0%nat); [reflexivity|] end.
      intros j o Hin. destruct o as [c|]; [|reflexivity]. cbv zeta.
      rewrite (kid_step_ext (rec1 qd) (rec2 qd)); [reflexivity|].
      apply IH. apply Under_unwrap. rewrite <- Hd. eapply Under_kid_node; eauto.
    - match goal with |- bind (mapM ?g _) _ = bind (mapM ?h _) _ =>
        rewrite (mapM_ext_in _ _ g h k); [reflexivity|] end.
      intros c Hin. cbv zeta.
      rewrite (kid_step_ext (rec1 qd) (rec2 qd)); [reflexivity|].
      apply IH. apply Under_unwrap. eapply Under_kid_slice; eauto.
  Qed.

  Lemma inner_ext : forall rec1 rec2 op t1 qd', IHrel rec1 rec2 ->
    (forall b, qbody t1 = Some b -> Under NoMac2 b qd') ->
    inner_of mk (rec1 qd') op t1 = inner_of mk (rec2 qd') op t1.
  Proof.
    intros rec1 rec2 op t1 qd' IH HU. unfold inner_of.
    destruct (qbody t1) as [b|]; [|reflexivity].
    rewrite (IH qd' _ (Under_unwrap _ true _ _ (HU b eq_refl))). reflexivity.
  Qed.

  Lemma after_expand_ext : forall rec1 rec2 qd r0, IHrel rec1 rec2 ->
    Under NoMac2 (unwrap_trivial true (fst r0)) qd ->
    after_expand mk rec1 qd r0 = after_expand mk rec2 qd r0.
  Proof.
    intros rec1 rec2 qd r0 IH HU. unfold after_expand. cbv zeta.
    remember (unwrap_trivial true (fst r0)) as t1 eqn:Et1. clear Et1.
    destruct (unary_op t1) as [op|] eqn:Eu.
    - unfold unary_of.
      assert (Hbody : forall b, qbody t1 = Some b -> Under NoMac2 b (depth_in t1 qd))
        by (intros b Hqb; exact (Under_qbody _ _ _ _ HU Hqb)).
      rewrite (depth_in_op _ _ qd Eu) in Hbody.
      destruct (N.eqb op MACRO) eqn:Em.
      { apply N.eqb_eq in Em. subst op. apply inner_ext; assumption. }
      destruct (N.eqb op QUOTE) eqn:Eq.
      { apply N.eqb_eq in Eq. subst op. destruct (qd =? 0); [reflexivity|]. apply inner_ext; assumption. }
      destruct (N.eqb op QUASIQUOTE) eqn:Eqq.
      { apply inner_ext; assumption. }
      destruct (is_unq op) eqn:Eun.
      { apply inner_ext; assumption. }
      apply recurse_ext; try assumption.
      rewrite (depth_in_op _ _ qd Eu), Eqq, Eun. reflexivity.
    - apply recurse_ext; try assumption. apply depth_in_none; exact Eu.
  Qed.

  Lemma walk_indep : forall f qd t, Under NoMac2 t qd -> walk mk m1 f qd t = walk mk m2 f qd t.
  Proof.
    induction f as [|f IH]; intros qd t HU; [reflexivity|].
    rewrite !walk_S. destruct (size0 t); [reflexivity|].
    destruct (qd <=? 0) eqn:Eq.
    - apply Z.leb_le in Eq.
      rewrite (macro_expand_free_ext f t (Under_elems_free _ _ _ HU Eq)).
      destruct (macro_expand mk m2 f t) as [r0| |] eqn:E; try reflexivity. simpl.
      apply after_expand_ext; [exact IH|].
      rewrite (macro_expand_free_local mk m2 _ _ _
                 (fun e Hin => proj2 (Under_elems_free _ _ _ HU Eq e Hin)) E).
      simpl. rewrite ut_uf. apply Under_unwrap. exact HU.
    - simpl. apply after_expand_ext; [exact IH|]. simpl. apply Under_unwrap. exact HU.
  Qed.
End Indep.

(* ---------- statements used by Props.v ---------- *)
(* no sub-tree is (after removing trivial wrappers) an identifier bound to a macro: no macro name occurs in t *)
Definition macro_free (macros : N -> option (nat * (list tree -> list tree))) (t : tree) : Prop :=
  AllSub (fun s => macro_of macros s = None) t.

(* every ~quote form in t has a body *)
Definition quote_bodies (t : tree) : Prop := AllSub quote_ok t.

(* t, visited at quasiquote depth qd, has no part at depth <= 0: qd >= 1 and no ~unquote / ~unquote_splice
   nesting brings the depth back to 0 *)
Definition Quoted (t : tree) (qd : Z) : Prop := Under (fun _ => False) t qd.

(* where t, visited at depth qd, is at depth <= 0 (unquoted), it mentions no macro of either table *)
Definition unquoted_macro_free (m1 m2 : N -> option (nat * (list tree -> list tree))) (t : tree) (qd : Z) : Prop :=
  Under (NoMac2 m1 m2) t qd.

(* identifier-level reading of macro_free *)
Definition ident_not_macro (macros : N -> option (nat * (list tree -> list tree))) (s : tree) : Prop :=
  forall i name a k, s = Node i TIdent (name :: a) k -> macros name = None.

Lemma macro_free_idents : forall macros t, AllSub (ident_not_macro macros) t -> macro_free macros t.
Proof.
  intros macros t H. apply AllSub_sub in H. revert H. apply AllSub_weaken. clear t. intros s H.
  apply (AllSub_unwrap _ true) in H. apply AllSub_here in H. unfold macro_of.
  destruct (unwrap_trivial true s) as [i tg a k|]; [|reflexivity].
  destruct tg; try reflexivity. destruct a as [|name a]; [reflexivity|].
  exact (H _ _ _ _ eq_refl).
Qed.

Lemma idents_macro_free : forall macros t, macro_free macros t -> AllSub (ident_not_macro macros) t.
Proof.
  intros macros t. apply AllSub_weaken. intros s H i name a k E. subst s. exact H.
Qed.

Lemma Quoted_depth : forall t qd, Quoted t qd -> 1 <= qd.
Proof.
  intros t qd H. destruct (Z_le_gt_dec qd 0) as [Hq|Hq]; [|lia].
  destruct (Under_here _ _ _ H Hq).
Qed.

Lemma macro_free_identity_depth : forall mk macros f qd t r,
  Under (Good macros) t qd -> walk mk macros f qd t = Ok r -> strip mk f t = Ok r /\ snd r = false.
Proof. intros mk macros f qd t r. apply walk_strip. Qed.

Lemma macro_free_identity : forall mk macros f qd t r,
  macro_free macros t -> quote_bodies t -> walk mk macros f qd t = Ok r -> strip mk f t = Ok r /\ snd r = false.
Proof.
  intros mk macros f qd t r H1 H2. apply walk_strip.
  apply (AllSub_Under (Good macros) (Good macros) (fun s H => H)).
  exact (AllSub_and _ _ _ H1 H2).
Qed.

Lemma macro_free_identity_table : forall mk macros f qd t r,
  (forall e, macro_of macros e = None) -> quote_bodies t ->
  walk mk macros f qd t = Ok r -> strip mk f t = Ok r /\ snd r = false.
Proof.
  intros mk macros f qd t r H. apply macro_free_identity. apply AllSub_all. exact H.
Qed.

(* the side condition [quote_bodies] cannot be dropped: a ~quote form without body is returned by the walk at
   depth 0 (the QUOTE barrier does not look at it) while the spec [strip] rejects it *)
Lemma macro_free_identity_needs_quote_bodies : forall mk macros,
  exists t, macro_free macros t /\
            walk mk macros 2 0 t = Ok (t, false) /\ strip mk 2 t = Err.
Proof.
  intros mk macros. exists (Node 0 TUnaryExpr [QUOTE] [None]).
  split; [|split; reflexivity].
  split; [reflexivity|exact I].
Qed.

Lemma quasiquote_only_unquoted_strong : forall mk m1 m2 f qd t,
  unquoted_macro_free m1 m2 t qd -> walk mk m1 f qd t = walk mk m2 f qd t.
Proof. intros mk m1 m2 f qd t. apply walk_indep. Qed.

Lemma quasiquote_only_unquoted : forall mk m1 m2 f qd t,
  Quoted t qd -> walk mk m1 f qd t = walk mk m2 f qd t.
Proof.
  intros mk m1 m2 f qd t H. apply walk_indep. revert H. apply Under_weaken. intros s [].
Qed.

(* fully quoted code is only stripped, whatever the macro table *)
Lemma quoted_is_strip : forall mk macros f qd t r,
  Quoted t qd -> walk mk macros f qd t = Ok r -> strip mk f t = Ok r /\ snd r = false.
Proof.
  intros mk macros f qd t r H. apply walk_strip. revert H. apply Under_weaken. intros s [].
Qed.

(* C20 — fuel: on code with no macro call at quasiquote depth <= 0 the walk never runs out of fuel once the fuel
   exceeds the height of the tree (so, with Proof2.walk_strip, it returns the [strip] result or Err). *)
From Coq Require Import List NArith ZArith Bool Lia.
From Verif Require Import Common.Rose C21.Model C21.Proof C20.Model C20.Proof C20.Proof2.
Import ListNotations.
Open Scope Z_scope.

(* ---------- heights ---------- *)
Lemma height_kid_node : forall i tg a k x, In (Some x) k -> (height x < height (Node i tg a k))%nat.
Proof.
  intros i tg a k x Hin. simpl. apply Nat.lt_succ_r.
  induction k as [|o k IH]; [destruct Hin|]. simpl. destruct Hin as [E|Hin].
  - subst o. apply Nat.le_max_l.
  - etransitivity; [exact (IH Hin)|apply Nat.le_max_r].
Qed.

Lemma height_kid_slice : forall i s a k x, In x k -> (height x < height (Slice i s a k))%nat.
Proof.
  intros i s a k x Hin. simpl. apply Nat.lt_succ_r.
  induction k as [|o k IH]; [destruct Hin|]. simpl. destruct Hin as [E|Hin].
  - subst o. apply Nat.le_max_l.
  - etransitivity; [exact (IH Hin)|apply Nat.le_max_r].
Qed.

Lemma height_pos : forall t, (1 <= height t)%nat.
Proof. destruct t; simpl; lia. Qed.

Lemma height_unwrap : forall uw t, (height (unwrap_trivial uw t) <= height t)%nat.
Proof.
  intros uw. induction t as [i tg a k IHk|i s a k IHk] using tree_ind'.
  - destruct tg; try apply Nat.le_refl;
      (destruct k as [|[c|] [|? ?]]; try apply Nat.le_refl;
       inversion IHk; subst;
       etransitivity; [exact H1|apply Nat.lt_le_incl; apply height_kid_node; simpl; auto]).
  - destruct s; try apply Nat.le_refl. destruct k as [|c [|? ?]]; try apply Nat.le_refl.
    inversion IHk; subst. cbn [unwrap_trivial]. destruct uw; [|apply Nat.le_refl].
    destruct (is_decl_or_define c); [apply Nat.le_refl|].
    etransitivity; [exact H1|apply Nat.lt_le_incl; apply height_kid_slice; simpl; auto].
Qed.

Lemma height_qbody : forall t b, qbody t = Some b -> (height b < height t)%nat.
Proof.
  intros t b Hb. destruct (qbody_shape _ _ Hb) as (i & a & j & a' & x & E). subst t.
  assert (H1 := height_kid_node i TUnaryExpr a [Some (Node j TFuncLit a' [x; Some b])] _ (or_introl eq_refl)).
  assert (H2 := height_kid_node j TFuncLit a' [x; Some b] b (or_intror (or_introl eq_refl))).
  lia.
Qed.

(* ---------- nothing but the fuelled functions ever answers OutOfFuel ---------- *)
Lemma mapM_noof : forall (A B : Type) (g : A -> res B) l,
  (forall x, In x l -> g x <> OutOfFuel) -> mapM g l <> OutOfFuel.
Proof.
  induction l as [|x l IH]; intros H; simpl; [discriminate|].
  assert (Hx := H x (or_introl eq_refl)). destruct (g x); simpl; try discriminate; [|contradiction].
  assert (Hl := IH (fun y Hin => H y (or_intror Hin))). destruct (mapM g l); simpl; try discriminate; contradiction.
Qed.

Lemma mapMi_noof : forall (A B : Type) (g : nat -> A -> res B) l i,
  (forall j x, In x l -> g j x <> OutOfFuel) -> mapMi g i l <> OutOfFuel.
Proof.
  induction l as [|x l IH]; intros i H; simpl; [discriminate|].
  assert (Hx := H i x (or_introl eq_refl)). destruct (g i x); simpl; try discriminate; [|contradiction].
  assert (Hl := IH (S i) (fun j y Hin => H j y (or_intror Hin))).
  destruct (mapMi g (S i) l); simpl; try discriminate; contradiction.
Qed.

Ltac brute := repeat match goal with |- context [match ?v with _ => _ end] => destruct v end; try discriminate.

Section NoOof.
  Variable mk : N -> N.

  Lemma to_stmt_noof : forall x, to_stmt mk x <> OutOfFuel.
  Proof. intros x. unfold to_stmt. brute. Qed.

  Lemma to_expr_noof : forall x, to_expr mk x <> OutOfFuel.
  Proof. intros x. unfold to_expr, block_to_expr. destruct (tree_cat x); try discriminate. brute. Qed.

  Lemma only_tag_noof : forall tg x, only_tag tg x <> OutOfFuel.
  Proof. intros tg x. unfold only_tag. brute. Qed.

  Lemma to_slice_noof : forall s g x, (forall y, g y <> OutOfFuel) -> to_slice mk s g x <> OutOfFuel.
  Proof.
    intros s g x Hg. unfold to_slice. destruct x as [|i s' a k]; [discriminate|].
    destruct (stag_beq s s'); [discriminate|].
    assert (H := mapM_noof _ _ g k (fun y _ => Hg y)). destruct (mapM g k); simpl; try discriminate. contradiction.
  Qed.

  Lemma coerce_noof : forall k x, coerce mk k x <> OutOfFuel.
  Proof.
    intros k x. destruct k; simpl;
      try apply to_expr_noof; try apply to_stmt_noof; try apply only_tag_noof;
      try (apply to_slice_noof; intros; first [apply to_expr_noof|apply to_stmt_noof|apply only_tag_noof]);
      try discriminate.
    - unfold to_block. destruct x as [|i s a kk].
      + assert (H := to_stmt_noof (Node id t atoms kids)). destruct (to_stmt mk (Node id t atoms kids)); simpl; try discriminate. contradiction.
      + destruct s; try discriminate;
          (assert (H := to_stmt_noof (Slice i s a kk)); destruct (to_stmt mk (Slice i s a kk)); simpl; try discriminate; contradiction).
    - brute.
    - brute.
    - unfold to_fieldlist. brute.
    - brute.
  Qed.

  Lemma make_quote_noof : forall op n, make_quote mk op n <> OutOfFuel.
  Proof. intros op n. unfold make_quote. brute. Qed.
End NoOof.

Section Fuel.
  Variable mk : N -> N.
  Variable macros : N -> option (nat * (list tree -> list tree)).

  Notation NoMac := (fun s => macro_of macros s = None).
  Notation walk := (walk mk macros).

  Lemma scan_noof : forall elts f k acc ex, (length elts < f)%nat ->
    (forall e, In e elts -> macro_of macros e = None) -> scan mk macros f k elts acc ex <> OutOfFuel.
  Proof.
    induction elts as [|elt rest IH]; intros f k acc ex Hlen Hfree; (destruct f as [|f]; [inversion Hlen|]); simpl.
    - discriminate.
    - rewrite (Hfree elt (or_introl eq_refl)).
      assert (Hc := coerce_noof mk k elt). destruct (coerce mk k elt); simpl; try discriminate; [|contradiction].
      apply IH; [simpl in Hlen; lia|]. intros e Hin. apply Hfree. simpl. auto.
  Qed.

  Lemma macro_expand1_noof : forall t,
    (forall e, In e (elems (unwrap_trivial false t)) -> macro_of macros e = None) ->
    macro_expand1 mk macros t <> OutOfFuel.
  Proof.
    intros t Hfree. unfold macro_expand1.
    destruct (unwrap_trivial false t) as [i tg a k|i s a k]; [discriminate|]. simpl in Hfree.
    assert (Hs := scan_noof k (S (length k)) (slot_of_stag s) [] false (Nat.lt_succ_diag_r _) Hfree).
    destruct (scan mk macros (S (length k)) (slot_of_stag s) k [] false) as [[outs ex]| |]; simpl;
      [|discriminate|contradiction].
    destruct ex; simpl; [destruct outs; discriminate|discriminate].
  Qed.

  Lemma macro_expand_noof : forall f t, (1 <= f)%nat ->
    (forall e, In e (elems (unwrap_trivial false t)) -> macro_of macros e = None) ->
    macro_expand mk macros f t <> OutOfFuel.
  Proof.
    intros f t Hf Hfree. destruct f as [|f]; [inversion Hf|]. simpl.
    assert (H1 := macro_expand1_noof t Hfree).
    destruct (macro_expand1 mk macros t) as [r| |] eqn:E; simpl; [|discriminate|contradiction].
    rewrite (macro_expand1_free_local mk macros _ _ Hfree E). discriminate.
  Qed.

  Definition IHfuel (f : nat) : Prop :=
    forall qd t, Under NoMac t qd -> (height t < f)%nat -> walk f qd t <> OutOfFuel.

  Lemma kid_noof : forall (B : Type) (F : tree -> tree * bool -> B) f qd k c1,
    IHfuel f -> Under NoMac c1 qd -> (height c1 < f)%nat ->
    (r <- (if size0 c1 then Ok (c1, false) else walk f qd c1) ;; y <- coerce mk k (fst r) ;; Ok (F y r)) <> OutOfFuel.
  Proof.
    intros B F f qd k c1 IH HU Hh.
    assert (H1 : (if size0 c1 then Ok (c1, false) else walk f qd c1) <> OutOfFuel).
    { destruct (size0 c1); [discriminate|]. apply IH; assumption. }
    destruct (if size0 c1 then Ok (c1, false) else walk f qd c1) as [r| |]; simpl; [|discriminate|contradiction].
    assert (Hc := coerce_noof mk k (fst r)). destruct (coerce mk k (fst r)); simpl; try discriminate. contradiction.
  Qed.

  Lemma recurse_noof : forall f qd any t1, IHfuel f -> Under NoMac t1 qd -> depth_in t1 qd = qd ->
    (height t1 <= f)%nat -> recurse_of mk (walk f qd) any t1 <> OutOfFuel.
  Proof.
    intros f qd any t1 IH HU Hd Hh. destruct t1 as [i tg a k|i s a k]; unfold recurse_of.
    - match goal with |- bind (mapMi ?g _ _) _ <> _ => assert (H : mapMi g 0%nat k <> OutOfFuel) end.
      { apply mapMi_noof. intros j o Hin. destruct o as [c|]; [|discriminate]. cbv zeta.
        apply (kid_noof _ (fun y r => (Some y, snd r))); [exact IH| |].
        - apply Under_unwrap. rewrite <- Hd. eapply Under_kid_node; eauto.
        - eapply Nat.le_lt_trans; [apply height_unwrap|].
          eapply Nat.lt_le_trans; [apply (height_kid_node i tg a k c Hin)|exact Hh]. }
      match goal with |- bind ?m _ <> _ => destruct m end; simpl; try discriminate. contradiction.
    - match goal with |- bind (mapM ?g _) _ <> _ => assert (H : mapM g k <> OutOfFuel) end.
      { apply mapM_noof. intros c Hin. cbv zeta.
        apply (kid_noof _ (fun y r => (y, snd r))); [exact IH| |].
        - apply Under_unwrap. eapply Under_kid_slice; eauto.
        - eapply Nat.le_lt_trans; [apply height_unwrap|].
          eapply Nat.lt_le_trans; [apply (height_kid_slice i s a k c Hin)|exact Hh]. }
      match goal with |- bind ?m _ <> _ => destruct m end; simpl; try discriminate. contradiction.
  Qed.

  Lemma inner_noof : forall f qd' op t1, IHfuel f ->
    (forall b, qbody t1 = Some b -> Under NoMac b qd') -> (height t1 <= f)%nat ->
    inner_of mk (walk f qd') op t1 <> OutOfFuel.
  Proof.
    intros f qd' op t1 IH HU Hh. unfold inner_of.
    destruct (qbody t1) as [b|] eqn:Eb; [|discriminate].
    assert (H1 : walk f qd' (unwrap_trivial true b) <> OutOfFuel).
    { apply IH; [apply Under_unwrap; exact (HU b eq_refl)|].
      eapply Nat.le_lt_trans; [apply height_unwrap|].
      eapply Nat.lt_le_trans; [exact (height_qbody _ _ Eb)|exact Hh]. }
    destruct (walk f qd' (unwrap_trivial true b)) as [r| |]; cbn [bind]; [|discriminate|contradiction].
    destruct (N.eqb op MACRO); [discriminate|]. destruct (snd r); [|discriminate].
    destruct (is_node (fst r)); [|discriminate].
    assert (Hq := make_quote_noof mk op (Some (fst r))).
    destruct (make_quote mk op (Some (fst r))); simpl; try discriminate. contradiction.
  Qed.

  Lemma after_expand_noof : forall f qd r0, IHfuel f ->
    Under NoMac (unwrap_trivial true (fst r0)) qd -> (height (unwrap_trivial true (fst r0)) <= f)%nat ->
    after_expand mk (walk f) qd r0 <> OutOfFuel.
  Proof.
    intros f qd r0 IH HU Hh. unfold after_expand. cbv zeta.
    remember (unwrap_trivial true (fst r0)) as t1 eqn:Et1. clear Et1.
    destruct (unary_op t1) as [op|] eqn:Eu.
    - unfold unary_of.
      assert (Hbody : forall b, qbody t1 = Some b -> Under NoMac b (depth_in t1 qd))
        by (intros b Hqb; exact (Under_qbody _ _ _ _ HU Hqb)).
      rewrite (depth_in_op _ _ qd Eu) in Hbody.
      destruct (N.eqb op MACRO) eqn:Em.
      { apply N.eqb_eq in Em. subst op. apply inner_noof; assumption. }
      destruct (N.eqb op QUOTE) eqn:Eq.
      { apply N.eqb_eq in Eq. subst op. destruct (qd =? 0); [discriminate|]. apply inner_noof; assumption. }
      destruct (N.eqb op QUASIQUOTE) eqn:Eqq.
      { apply inner_noof; assumption. }
      destruct (is_unq op) eqn:Eun.
      { apply inner_noof; assumption. }
      apply recurse_noof; try assumption.
      rewrite (depth_in_op _ _ qd Eu), Eqq, Eun. reflexivity.
    - apply recurse_noof; try assumption. apply depth_in_none; exact Eu.
  Qed.

  Lemma walk_noof : forall f, IHfuel f.
  Proof.
    induction f as [|f IH]; intros qd t HU Hh; [inversion Hh|].
    rewrite walk_S. destruct (size0 t); [discriminate|].
    assert (Hut : (height (unwrap_trivial true t) <= f)%nat).
    { eapply Nat.le_trans; [apply height_unwrap|]. apply Nat.lt_succ_r. exact Hh. }
    destruct (qd <=? 0) eqn:Eq.
    - apply Z.leb_le in Eq.
      assert (Hfree := Under_elems_free _ _ _ HU Eq).
      assert (Hf : (1 <= f)%nat) by (assert (Hp := height_pos t); lia).
      assert (H1 := macro_expand_noof f t Hf Hfree).
      destruct (macro_expand mk macros f t) as [r0| |] eqn:E; simpl; [|discriminate|contradiction].
      rewrite (macro_expand_free_local mk macros _ _ _ Hfree E). 
      apply after_expand_noof; [exact IH| |]; simpl; rewrite ut_uf; [apply Under_unwrap; exact HU|exact Hut].
    - simpl. apply after_expand_noof; [exact IH| |]; simpl; [apply Under_unwrap; exact HU|exact Hut].
  Qed.
End Fuel.

(* with fuel > height the walk of code without macro calls at depth <= 0 never answers OutOfFuel *)
Lemma macro_free_fuel_depth : forall mk macros f qd t,
  Under (fun s => macro_of macros s = None) t qd -> (height t < f)%nat -> walk mk macros f qd t <> OutOfFuel.
Proof. intros mk macros f. apply walk_noof. Qed.

Lemma macro_free_fuel : forall mk macros f qd t,
  macro_free macros t -> (height t < f)%nat -> walk mk macros f qd t <> OutOfFuel.
Proof.
  intros mk macros f qd t H. apply walk_noof.
  exact (AllSub_Under _ _ (fun s Hs => Hs) t qd H).
Qed.

(* hence: the [strip] result or Err *)
Lemma macro_free_total : forall mk macros f qd t,
  macro_free macros t -> quote_bodies t -> (height t < f)%nat ->
  (exists x, walk mk macros f qd t = Ok (x, false) /\ strip mk f t = Ok (x, false)) \/ walk mk macros f qd t = Err.
Proof.
  intros mk macros f qd t H1 H2 Hh.
  assert (Hn := macro_free_fuel mk macros f qd t H1 Hh).
  destruct (walk mk macros f qd t) as [[x b]| |] eqn:E; [left|right; reflexivity|contradiction].
  destruct (macro_free_identity mk macros f qd t _ H1 H2 E) as [Es Eb]. simpl in Eb. subst b.
  exists x. split; [reflexivity|exact Es].
Qed.
